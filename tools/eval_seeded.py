#!/usr/bin/env python3
"""Run every seeded change under /verif/seeded against the quick check of its own property (scratch copy of /repo,
never /repo itself) and write SEEDED_RESULTS.md.   usage: tools/eval_seeded.py [VERIF_SEED]"""
import json, os, subprocess, sys
from multiprocessing.pool import ThreadPool

seed = sys.argv[1] if len(sys.argv) > 1 else "1"
names = sorted(os.listdir("/verif/seeded"))


def one(name):
    prop = name.split("-")[0]
    try:
        prop = json.load(open(f"/verif/seeded/{name}/meta.json")).get("check", prop)
    except Exception:
        pass
    env = dict(os.environ, VERIF_SEED=seed)
    r = subprocess.run(["/verif/tools/try_mutant.sh", f"/verif/seeded/{name}/patch.diff", prop], capture_output=True,
                       text=True, env=env, cwd="/verif")
    line = (r.stdout.strip().splitlines() or ["?"])[-1]
    return name, prop, line


with ThreadPool(int(os.environ.get("MUT_PAR", "4"))) as pool:
    res = pool.map(one, names)
rows = ["# Seeded changes vs the quick check of their own property (VERIF_SEED=%s)" % seed, "",
        "| seeded change | check | exit | first failing sub-check |", "|---|---|---|---|"]
caught = 0
for name, prop, line in res:
    code = line.split("exit=")[1].split()[0] if "exit=" in line else "?"
    sub = line.split("[")[1].split("]")[0] if "[" in line else ""
    caught += code == "1"
    rows.append(f"| {name} | {prop} | {code} | {sub} |")
    print(name, code, sub, flush=True)
rows += ["", f"{caught} of {len(res)} caught by the property's own quick check at this seed."]
open("/verif/SEEDED_RESULTS.md", "w").write("\n".join(rows) + "\n")
