#!/bin/sh
# Runs every quick check once (VERIF_SEED honoured) and prints a one-line summary per property.
cd "$(dirname "$0")/.."
for c in C01 C02 C03 C04 C05 C06 C07 C08 C09 C10 C11 C12 C13 C14 C15 C16 C17 C18 C19 C20; do
  out=$(/venv/bin/python -m harness.run $c --tier quick 2>/dev/null); code=$?
  echo "exit=$code $(printf '%s\n' "$out" | tail -1)"
done
