import json, collections
r1=json.load(open('/tmp/auto_mutants_run1.json'))
r2=json.load(open('/tmp/auto_mutants_rerun.json'))
k=lambda x:(x['file'],x['line'],x['old'],x['new'])
re={}
for x in r2:
    # a mutant token can occur twice on a line: keep 'survived' if any variant survived
    if k(x) not in re or x['status']!='killed': re[k(x)]=x
REASON=[
 (('edge.py',(241,243,247,248)),"is_straight() switched off for >=3 points: the circle fit of collinear points then gives the tangent to ~1e-4, inside the tolerance of the 'straight multi-point' class (3e-3, needed on the unchanged tree for tissues far from the origin, where rounding alone defeats the collinearity test); since the D20 fix the fit no longer returns the normal"),
 (('edge.py',(27,)),"default of a field every parser sets explicitly"),
 (('cell.py',(27,)),"default never used: the skeleton parser passes the third positional argument itself"),
 (('frames.py',(303,)),"window and order of the Savitzky-Golay smoothing are not the subject of any property (C10 uses filter_edges only as 'the frame data changed'); the repository's suite kills it"),
 (('frames.py',(37,)),"gt=True only computes additional reference means"),
 (('frames.py',(267,268)),"both vertex lists are intersected: relaxing one filter alone changes nothing"),
 (('frames.py',(286,287)),"square grid: both axes have the same number of bins"),
 (('fmatrix.py',(123,363,400,429,437)),"external-force terms: ForSys always builds with externals_to_use='none' (dead in scope), or index -1 == 0 on a one-column array"),
 (('fmatrix.py',(276,545,550)),"initial condition of the Levenberg-Marquardt back-end after an exclusion: a wrong length makes lmfit raise and the solver falls back to NNLS, whose optimum satisfies the property"),
 (('fmatrix.py',(315,)),"x < 0 vs x <= 0 differs only for an exact zero"),
 (('forsys.py',(25,)),"killed once C13 left cm at its default (done after this campaign)"),
 (('general_matrix.py',(58,)),"allow_negatives=False for pressures is not part of any property (pressures are signed)"),
 (('general_matrix.py',(98,)),"numpy treats reshape(-2, 1) like reshape(-1, 1)"),
 (('myosin.py',(84,)),"the window is symmetric: +ii and -ii enumerate the same pixels"),
 (('pmatrix.py',(66,)),"area sign of a real cell is never 0"),
 (('skeleton.py',(31,48)),"shifts every coordinate by a constant: topology, the subject of C15, is unchanged (cells are then compared up to relabelling)"),
 (('skeleton.py',(45,323)),"ids are arbitrary labels"),
 (('skeleton.py',(112,)),"SmallEdge.external of skeleton meshes is only read by plotting"),
 (('skeleton.py',(120,134,157)),"interior artefact triangles (two interfaces between the same pair of junctions): images with minimal junction pixels, the domain of C15, have none; C09's rasters only produce border artefacts"),
 (('skeleton.py',(340,)),"area only feeds the outline filter, which has a factor-5 margin"),
 (('stress_tensor.py',(53,57,58,118,119,123)),"weighting of the tension term: the statement only requires symmetry, joint linearity and -p*I for zero tensions, all of which survive"),
 (('stress_tensor.py',(100,)),"< vs <= on the averaging radius: measure zero (cases on the radius are skipped)"),
 (('stress_tensor.py',(91,92)),"killed after C18 computed the grid centres independently"),
 (('tessellation.py',(23,)),"edge id 0 never occurs"),
 (('tessellation.py',(52,191,212)),"ids are arbitrary labels"),
 (('tessellation.py',(54,)),"default cut-off 75 vs 76: needs a region diameter in (75, 76]"),
 (('tessellation.py',(171,)),"only the sign of the area is used"),
 (('tessellation.py',(221,222,223,224,225,228)),"placement of the helper ring of add_voronoi_centers: any extra centres are admissible, the lattice must match the Voronoi diagram of whatever centres are given"),
 (('time_series.py',(145,146)),"tautology in the source (len(x) > len(x) + 1)"),
 (('time_series.py',(187,197,201,203)),"candidate search: the closest candidate is chosen afterwards, widening or distorting the second (reverse) pass does not change the winner inside the tracking bounds"),
 (('vertex.py',(49,52,83,109,112)),"return values of add_* that no caller reads"),
 (('virtual_edges.py',(283,)),"origin of the local frame of the circle fit: any point one cloud size away works"),
 (('virtual_edges.py',(113,)),"killed after C11 left replace_short_edges at its default"),
 (('myosin.py',(73,74,75,94,95)),"killed after C17 drew anisotropic rescale / per-axis offsets and left them at their defaults"),
]
def reason(x):
    for (fn,lines),txt in REASON:
        if x['file']==fn and x['line'] in lines: return txt
    return ""
rows=[]
cnt=collections.Counter()
for x in sorted(r1,key=k):
    st=x['status']; by=x['by']; sub=x['sub']; note=""
    if st in ('survived','harness-error'):
        y=re.get(k(x))
        if y and y['status']=='killed':
            note=f"first run: {st}" + (f" ({x['by']}: {x['sub'][:60]})" if st=='harness-error' else (" (suite: "+x['by'].split(':')[-1]+")" if x['by'] else ""))
            st='killed-after-strengthening'; by=y['by']; sub=y['sub']
        else:
            if st=='harness-error' and y: st=y['status']
            suite=x['by'] if x['by'].startswith('suite') else ''
            note=(suite+"; " if suite else "")+reason(x)
            by=""; sub=""
    if k(x)==('forsys.py',25,'False','True'):
        st,by,sub,note='killed-after-strengthening','C13','velocity','first run: survived; killed once C13 left cm at its default (checked by hand after the second run)'
    if k(x)==('skeleton.py',48,'max','min'):
        st='survived'; note='harness error in both runs (centroid look-up outside the image) - the check now falls back to a comparison up to relabelling; '+note
    cnt[st]+=1
    rows.append((x,st,by,sub,note))
out=["# Automatic single-token mutants on lines the quick checks execute (VERIF_SEED=1)","",
 "`tools/auto_mutants.py`: comparison / arithmetic / boolean / constant / min-max mutations of the forsys sources (30 sampled per file, only on lines some quick check executes; `plot.py` excluded), each run in a scratch copy against the quick checks of the properties anchored in that file; survivors were also run against the repository's own test suite. The first run exposed three harness weaknesses (a known-finding demonstrator that raises turned a detection into exit 2; harness arithmetic overflowing on absurd results; direct attribute access on `ForSys.mesh`) and several generator gaps (C18 grid centres, C17 anisotropic placement, defaults never left out); the survivors and harness errors were run again after the repairs.","",
 f"{len(rows)} mutants: {cnt['killed']} killed at once, {cnt['killed-after-strengthening']} killed after the strengthening they prompted, {cnt['survived']} survived, {cnt['harness-error']} harness errors, {cnt['invalid']} invalid.",
 "Every survivor is listed with the reason it does not contradict a property (equivalent in scope, or outside what the property states).","",
 "| file:line | mutation | status | by | sub-check | note | source line |","|---|---|---|---|---|---|---|"]
for x,st,by,sub,note in rows:
    out.append(f"| {x['file']}:{x['line']} | `{x['old']}` -> `{x['new'] or '(removed)'}` | {st} | {by} | {sub[:70]} | {note} | `{x['text'][:90].replace('|','/')}` |")
open('/verif/AUTO_MUTANTS.md','w').write("\n".join(out)+"\n")
print(cnt)
miss=[x for x,st,by,sub,note in rows if st=='survived' and not reason(x)]
for x in miss: print('NO REASON', x['file'],x['line'],x['old'],x['new'],x['text'][:80])
