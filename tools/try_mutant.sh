#!/bin/sh
# usage: tools/try_mutant.sh <patch.diff> <Cxx> [<Cyy> ...]
# Applies the patch to a scratch copy of /repo's working tree (outside /repo and /verif), runs the quick checks against
# that copy (FORSYS_REPO), and removes the copy. /repo itself is never touched, so several runs can go in parallel.
# Prints one line per check: "<Cxx> exit=<code> nviol=<n> <first VIOLATION line>"
set -u
PATCH="$(readlink -f "$1")"; shift
SCR=$(mktemp -d /tmp/mutcopy.XXXXXX)
trap 'rm -rf "$SCR"' EXIT INT TERM
cp -r /repo/. "$SCR"/
cd "$SCR" || exit 2
if ! git apply "$PATCH" 2>/dev/null; then
  # patches made against an older HEAD: try with reduced context
  if ! git apply -C1 "$PATCH" 2>/dev/null; then echo "patch does not apply: $PATCH"; exit 2; fi
fi
cd /verif
for c in "$@"; do
  out=$(FORSYS_REPO="$SCR" VERIF_SEED=${VERIF_SEED:-1} /venv/bin/python -m harness.run "$c" --tier quick 2>&1)
  code=$?
  first=$(printf '%s\n' "$out" | grep -m1 '^VIOLATION' | sed 's/replay=[^ ]*//' | cut -c1-230)
  herr=$(printf '%s\n' "$out" | grep -m1 'HARNESS-ERROR' | cut -c1-120)
  echo "$c exit=$code nviol=$(printf '%s\n' "$out" | grep -c '^VIOLATION') $first $herr"
done
