#!/bin/sh
# usage: tools/try_mutant.sh <patch.diff> <Cxx> [<Cyy> ...]
# Applies the patch to /repo (which must be clean), runs the quick checks, and always reverts.
# Prints one line per check: "<Cxx> exit=<code> <first VIOLATION line>"
set -u
PATCH="$1"; shift
cd /repo || exit 2
if [ -n "$(git status --porcelain --untracked-files=no)" ]; then echo "repo not clean"; exit 2; fi
if ! git apply --check "$PATCH" 2>/dev/null; then echo "patch does not apply: $PATCH"; exit 2; fi
git apply "$PATCH"
trap 'cd /repo && git checkout -- . ' EXIT INT TERM
cd /verif
for c in "$@"; do
  out=$(VERIF_SEED=${VERIF_SEED:-1} /venv/bin/python -m harness.run "$c" --tier quick 2>&1)
  code=$?
  first=$(printf '%s\n' "$out" | grep -m1 '^VIOLATION' | sed 's/replay=[^ ]*//' | cut -c1-220)
  herr=$(printf '%s\n' "$out" | grep -m1 'HARNESS-ERROR' | cut -c1-120)
  echo "$c exit=$code nviol=$(printf '%s\n' "$out" | grep -c '^VIOLATION') $first $herr"
done
