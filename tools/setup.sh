#!/bin/sh
# Offline setup: make sure the interpreter that has forsys' dependencies also has hypothesis.
set -e
PY=/venv/bin/python
if ! $PY -c "import hypothesis" 2>/dev/null; then
  /venv/bin/pip install --no-index --find-links /opt/veriftools/wheels hypothesis
fi
cd /verif
PYTHONPATH=/repo $PY -c "import hypothesis, numpy, scipy, forsys, harness.core; print('setup ok: hypothesis', hypothesis.__version__, 'numpy', numpy.__version__, 'forsys from', forsys.__file__)"
