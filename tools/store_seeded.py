#!/usr/bin/env python3
"""tools/store_seeded.py <worktree> <mutant> <prop> <name> <caught_by json>  -> /verif/seeded/<name>/"""
import json, os, shutil, sys
wt, m, prop, name, caught = sys.argv[1:6]
src = os.path.join(wt, "out", m)
dst = os.path.join("/verif/seeded", name)
os.makedirs(dst, exist_ok=True)
for f in ("patch.diff", "demo.py", "notes.txt"):
    shutil.copy(os.path.join(src, f), os.path.join(dst, f))
confirm = open(os.path.join(src, "confirm.txt")).read().strip() if os.path.exists(os.path.join(src, "confirm.txt")) else ""
meta = {"property": prop, "origin": "independent sub-agent given only the property text and a scratch worktree",
        "needs_to_manifest": open(os.path.join(src, "notes.txt")).read().strip(),
        "confirmed_by_me": {"command": f"tools/confirm_seeded.sh {wt} {m}  (demo on clean tree, demo with patch, full pytest suite with patch)",
                            "result": confirm},
        "checks_result": json.loads(caught)}
json.dump(meta, open(os.path.join(dst, "meta.json"), "w"), indent=1)
print("stored", dst)
