#!/usr/bin/env python3
"""Regenerate /verif/MANIFEST.json from the table below (keeps the manifest valid and in sync with the checks)."""
import json
import os

VERIF = os.path.dirname(os.path.dirname(os.path.abspath(__file__)))
PY = "/venv/bin/python"

# property -> (technique, level text, level note, design ref)
CHECKS = {
    "C01": ("property-based testing (Hypothesis): analytic equilibrium tissues (Voronoi/Maxwell + Moebius images) vs "
            "reported tensions",
            "Generated-input exploration with a closed-form oracle: reported tensions are compared per physical "
            "interface with T_true/mean(T_true) on equilibrium tissues at arbitrary pose, sampling, labelling, "
            "resampling, three solver back-ends and two circle fits; tolerance = 3x the deviation the admissible "
            "coefficient noise causes in the exact minimiser (typically 1e-6).",
            "Trusted: analytic tissue model (self-tested); per-class coefficient noise floors; lmfit/lsq_linear "
            "floors 1e-3/3e-4. Rotations are steered off known finding D1 by construction; rank-deficient augmented "
            "systems are known finding D3 (counted, excluded). Under-determined tissues are skipped and counted.",
            "DESIGN.md 4/C01"),
    "C03": ("property-based testing (Hypothesis): manufactured time series whose junction displacements are dt x the "
            "resultant of drawn tensions; reported tensions vs the drawn ones",
            "Generated-input exploration with an exact answer: arbitrary positive tension vectors (not an equilibrium) "
            "define the junction motion of the inferred frame analytically; frames are renumbered independently, time "
            "stamps are arbitrary and unequal, inference at first/middle/last (backward difference) frame, three "
            "back-ends, two fits; tolerance derived from the 3-decimal rounding of the velocity term and the "
            "admissible coefficient noise.",
            "Trusted: analytic tangents; tracking inside C12's bounds is asserted first (a tracking failure is "
            "reported under C12). D1 avoided by construction. Ill-conditioned instances skipped and counted.",
            "DESIGN.md 4/C03"),
    "C12": ("property-based testing (Hypothesis): generated displacement fields inside / outside the stated bounds, "
            "ground-truth successor map",
            "Generated-input exploration: series of 2..6 frames with random / affine / drift+vortex displacement "
            "fields scaled to a drawn fraction of the admissible bound, independent renumbering per frame, partial "
            "user pairings, cm on/off: keys/values are interface end points, targets pairwise distinct, user pairs "
            "honoured (always); true successor and forward/backward round trip (inside the bounds).",
            "Trusted: the premises are evaluated exactly as the statement words them (spacing, 8% extent, 10% shape) "
            "on the coordinates TimeSeries sees; a 3% safety margin separates 'inside' from 'outside'.",
            "DESIGN.md 4/C12"),
    "C13": ("property-based testing (Hypothesis): finite differences from ground-truth positions and time stamps",
            "Generated-input exploration: calculate_velocity for every junction and frame (forward, backward at the "
            "last frame, untracked junction => zero), placement of velocity components in the right-hand side rows "
            "of the junction's own equations, static mode all zero, adimensional division by the mean junction speed "
            "and velocity_normalization, system velocity per frame.",
            "Trusted: ground-truth successor from the generating model. Frames whose mean junction speed is exactly "
            "zero are excluded from the adimensional clause (0/0 undefined).",
            "DESIGN.md 4/C13"),
    "C04": ("property-based testing (Hypothesis): analytic centre-of-curvature sides / turning angles / Young-Laplace "
            "pressures, metamorphic re-orientation and scaling, independent zero-sum least squares",
            "Generated-input exploration of five clauses on arc tissues with directly assigned tensions: equation "
            "shape and side, turning-estimate law (0.97..1.03 of theta (n-2)/(n-1)), independence of stored "
            "orientations and of scale, agreement with an independent min-norm least-squares solution, zero sum, "
            "linearity in the tensions, zero for cells without interface, and correlation >= 0.9 with the analytic "
            "pressures |s_i - pole|^2 where the stated equations themselves allow it.",
            "Trusted: closed-form tissue model; rounding floors of the generated points are part of the tolerances. "
            "Known finding D17: tissues whose ideal solution correlates < 0.92 are excluded from the 0.9 clause.",
            "DESIGN.md 4/C04"),
    "C05": ("property-based testing (Hypothesis) with a KKT optimality certificate; hook record cross-checked",
            "Generated-input exploration: for noisy / equilibrium / fixture systems, square (inversion path) and "
            "rectangular (fallback), static and velocity right-hand sides, three back-ends, the reported tensions "
            "with the best non-negative multiplier must satisfy the KKT conditions of min ||Mx-b||^2, x>=0 (decides "
            "optimality per instance), equal the unique minimiser when M has full column rank, be non-negative and "
            "finite, and have mean one when the assembled system is consistent.",
            "Trusted: KKT conditions (convexity), scipy.nnls only after it passes the same certificate, the "
            "FORSYS_VERIF hook record after cross-check with an independent reconstruction. lmfit judged by a 1e-4 "
            "relative objective gap. fix_stress is known finding D5.",
            "DESIGN.md 4/C05"),
    "C06": ("property-based testing (Hypothesis): metamorphic comparison of two independently posed copies of a tissue; "
            "unit changes on manufactured time series",
            "Generated-input exploration: the same tissue in two drawn poses (scale 1e-3..1e3, shift up to 1e4 sizes, "
            "reflection, rotation incl. near-axis) must give the same tension per physical interface and pressure per "
            "physical cell, and coefficient pairs related by the relative rotation/reflection; with adimensional "
            "velocities a 2-frame series must give the same tensions after multiplying all time stamps or all "
            "lengths by 1e-3..1e3.",
            "Trusted: certified NNLS reference for the tolerance. Off equilibrium only translation and scaling are "
            "compared (rotation/reflection non-invariance of the formulation is known finding D24); D1 avoided by "
            "construction in both poses.",
            "DESIGN.md 4/C06"),
    "C07": ("property-based testing (Hypothesis) + exhaustive enumeration of all 2^cells orientation patterns of small "
            "tissues: metamorphic comparison of relabelled meshes",
            "Generated-input exploration: canonical vs relabelled mesh (random injective vertex/edge/cell ids with "
            "gaps, cyclic shifts, flipped cells) of exact and noisy tissues: same internal interfaces as physical "
            "point sequences, same junction rows and supports, coefficient pairs equal within fit noise, same tension "
            "per interface and pressure per cell. All orientation patterns of 5..9-cell tissues are enumerated.",
            "Trusted: both runs see bit-identical coordinates; certified NNLS reference for the tolerance. Two "
            "interfaces joining the same junction pair cannot arise from Voronoi-derived tissues (not covered).",
            "DESIGN.md 4/C07"),
    "C10": ("stateful property-based testing (Hypothesis RuleBasedStateMachine) against a reference model = fresh "
            "object performing only the last build and solve",
            "Generated-history exploration: up to 18 API calls (build_force_matrix / solve_stress / "
            "build_pressure_matrix / solve_pressure / get_system_velocity_per_frame / Frame.filter_edges / a second "
            "ForSys object over the used frames) over the frames of a generated series (arc tissues and brick "
            "lattices with exact T-junctions), any frame order, any mix of back-ends, b_matrix modes, fits, angle "
            "limits, documented defaults left out as drawn; after every solve "
            "and pressure solve the observable results are compared with a fresh object; structural invariants "
            "(stores keyed by frame, interface and mesh-edge tensions, table ids) after every step; a step that "
            "crashes only after the history (not on a fresh object) is a violation.",
            "Trusted: the model 'pure function of frame data and last arguments'; numpy error state is reset at the "
            "start of each history only. fix_stress (D5) not generated. Saved histories in regress/C10 are replayed "
            "first.",
            "DESIGN.md 4/C10"),
    "C15": ("property-based testing (Hypothesis): synthetic skeleton rasters with pixel/Voronoi ground truth under the "
            "symmetries of the square, padding and mirror_y; shipped images metamorphically",
            "Generated-input exploration: rasterised, hole-filled, thinned Voronoi tissues whose stated image "
            "preconditions are re-checked independently of forsys; after parsing + resampling (ne 3..9) + Frame "
            "construction: cell count, cell-to-region matching, border flags, set of cell pairs with an internal "
            "interface, junction count, mesh consistency, and equality of all of these across transformations.",
            "Trusted: raster.py (Bresenham, hole filling, simple-point thinning, scipy.ndimage labelling). Covers "
            "junction pixel patterns of thinned straight-line rasters plus the two shipped images.",
            "DESIGN.md 4/C15"),
    "C17": ("property-based testing (Hypothesis): independent numpy re-implementation + linearity / uniform / "
            "normalisation / write-back laws",
            "Generated-input exploration: float and 8-bit images, tissue interfaces placed by drawn rescale/offset and "
            "hand-built polylines (axis-aligned, diagonal, fractional slope, curved), layers 0..3, integrate on/off, "
            "normalisation None/average, repeated interfaces: window-median mean per interface; distinct-pixel band sum "
            "/ polyline length; a*image => a*intensity; uniform image => equal; average => mean 1; gt written in order.",
            "Trusted: the reference implementation in checks/c17.py; windows inside the image, positive coordinates.",
            "DESIGN.md 4/C17"),
    "C18": ("property-based testing (Hypothesis): algebraic laws + independent cell selection + eigen-decomposition",
            "Generated-input exploration: drawn pressures/tensions (zero, negative), grid 1..12, radius 0.5..6: exact "
            "symmetry, zero iff no cell centre in range, area-weighted -p*I for zero tensions, joint linearity, "
            "grid^2 tensors, principal stresses = eigen-system of the tensor at each grid centre.",
            "Trusted: numpy.linalg.eigvalsh; cells exactly on the radius are skipped. The tension term's weighting "
            "is not specified by the statement and only enters through linearity.",
            "DESIGN.md 4/C18"),
    "C16": ("property-based testing (Hypothesis): analytic opening angles -> expected flagged junctions and excluded "
            "interfaces; KKT certificate on the restricted system",
            "Generated-input exploration: limits in [0.5pi, pi] and the two defaults, static and velocity modes, "
            "default and lsq back-ends with user initial conditions: excluded set, -1 positions, remaining interface "
            "list, restricted rows/coefficients vs an unlimited fresh matrix, optimality of the remaining values, "
            "'default limit excludes nothing'.",
            "Trusted: closed-form tangents for internal interfaces; directions of multi-arc border interfaces are "
            "read from forsys itself. Cases with an opening angle within the coefficient uncertainty of the limit "
            "are skipped and counted.",
            "DESIGN.md 4/C16"),
    "C08": ("exhaustive enumeration of all cell subsets of small tissues + property-based testing (Hypothesis) against "
            "an independent graph-walk decomposition",
            "Exploration with an exhaustive core: all 2^n cell subsets (n<=10) of several base tissues and lattices, "
            "plus random subsets of tissues up to 60 cells and resampled meshes; Frame's interface list and the three "
            "copies of the internal/external predicate are compared with a reference decomposition that walks the "
            "raw mesh multigraph and a cell-count predicate; table ids (inferred, reference and full table) and "
            "lookup-by-cells checked; meshes built by every parser; an exhaustively enumerated family of tissues with a "
            "two-junction cell.",
            "Trusted: the reference walk (refdecomp.py, ~80 lines). Two-point notch edges are ambiguous by the "
            "statement (not asserted to separate two cells). Exhaustive only for the enumerated base tissues. Known "
            "finding D29 (third owner of a one-edge interface next to a two-junction cell) is counted, not flagged.",
            "DESIGN.md 4/C08"),
    "C09": ("property-based testing (Hypothesis): generated construction paths x operation sequences, invariant after "
            "every step",
            "Generated-history exploration: a mesh is built through one of six construction paths (direct, Surface "
            "Evolver dump via the independent serialiser, WKT text, Voronoi tessellation, shipped skeleton images, "
            "synthetic skeleton rasters - thinned, raw, or strongly irregular; lattices also requested a second time "
            "from the same parser object) and then driven through up to 6 operations (generate_mesh with drawn ne and "
            "replace_short_edges, Frame construction, gc.collect); after each step all back references are recomputed "
            "from scratch by object identity.",
            "Trusted: meshcheck.py (the invariant). SegmentationArtifactException ends a sequence (documented "
            "rejection). Chained contractions (D21) are avoided by construction.",
            "DESIGN.md 4/C09"),
    "C19": ("property-based testing (Hypothesis) against the scipy Voronoi diagram of the drawn centres",
            "Generated-input exploration: random, jittered-lattice (jitter 0..0.3), exactly square and exactly "
            "hexagonal centre sets of 6..300 points, with/without helper ring, tight to infinite max_distance: one "
            "cell per bounded region below the cut-off, vertex cycle = rounded corners up to orientation, every vertex "
            "equidistant from its three nearest centres, ridge corners shared as the same Vertex objects with exactly "
            "one mesh edge, common rotational sense, mesh consistency.",
            "Trusted: scipy.spatial.Voronoi as the definition of the diagram; corners coinciding after rounding are "
            "one corner; cases with a region diameter on the cut-off are skipped.",
            "DESIGN.md 4/C19"),
    "C20": ("property-based testing (Hypothesis) with an exact rational shoelace oracle; all cyclic shifts enumerated",
            "Generated-input exploration: star-shaped / convex polygons with 3..80 vertices, both orientations and "
            "every cyclic shift: area vs exact Fraction shoelace, sign convention, perimeter, navigation laws, scaling "
            "and translation laws; tissues and sub-tissues: sum |area| = outline area, neighbours = cells sharing a "
            "vertex, orientation sign per stored orientation.",
            "Trusted: fractions.Fraction arithmetic; outline chaining of edges owned by exactly one cell.",
            "DESIGN.md 4/C20"),
    "C11": ("property-based testing (Hypothesis): snapshot / resample / compare laws, idempotence, shipped fixtures",
            "Generated-input exploration: meshes with 0..40 points per interface, sub-tissues with pinches and holes, "
            "ne 1..12, replace_short_edges on/off, any pose; after generate_mesh every junction of >=3 cells keeps id "
            "and exact position, cells with a junction survive, adjacencies are kept, each interface becomes an "
            "ordered subsequence with both ends and <= ne+1 points (modulo midpoint contraction), cell cycles are "
            "cyclic subsequences, a second resampling changes nothing, mesh stays consistent.",
            "Trusted: reference decomposition. Chained contractions (D21) and parallel-interface collapse (D22) are "
            "known findings, excluded by construction / not asserted; loop interfaces with ne<=2 are unsatisfiable.",
            "DESIGN.md 4/C11"),
    "C14": ("property-based testing (Hypothesis): round-trip through an independent Surface Evolver serialiser",
            "Generated-input exploration: dumps written by an independent serialiser from generated tissues (id gaps, "
            "signed edge references, wrapped faces, four edge record styles, orphans, CRLF/LF, coordinates 1e-3..1e6) "
            "are parsed and compared field by field with the generating model; Frame(gt=True) reference tensions = "
            "mean density per interface; mesh consistency.",
            "Trusted: the serialiser (se_writer.py) reproduces the layout of the shipped dumps (one blank line before "
            "each section marker, bodies in face order). Rounding ties accept either rule.",
            "DESIGN.md 4/C14"),
    "C02": ("property-based testing (Hypothesis) against closed-form tangents of exact arc/line tissues",
            "Generated-input exploration: every entry of the assembled force-balance matrix is compared with the "
            "analytic outward unit tangent on Voronoi/Moebius/lattice tissues, sub-tissues, near-axis rotations, both "
            "fits, ignore_four on/off. Held-on-everything-explored, not absence.",
            "Trusted: the closed-form tissue model (self-tested for force balance), per-class tolerances derived "
            "from measured circle-fit noise floors. Coefficient pairs in the known-finding class D1 are skipped.",
            "DESIGN.md 4/C02"),
}

NOT_APPLICABLE = {
}


def main():
    checks = []
    for pid in sorted(CHECKS):
        tech, text, note, ref = CHECKS[pid]
        checks.append({
            "property_id": pid,
            "quick_cmd": f"{PY} -m harness.run {pid} --tier quick",
            "thorough_cmd": f"{PY} -m harness.run {pid} --tier thorough",
            "evidence_file": f"/verif/evidence/{pid}.json",
            "replay_cmd_template": f"{PY} -m harness.run {pid} --replay {{path}}",
            "engine": "harness",
            "level_claimed": {"category": "exploration", "text": text, "design_ref": ref},
            "level_note": note,
            "technique": tech,
        })
    props = [json.loads(l)["id"] for l in open(os.path.join(VERIF, "properties.jsonl")) if l.strip()]
    na = []
    for pid in props:
        if pid not in CHECKS:
            na.append({"property_id": pid,
                       "reason": NOT_APPLICABLE.get(pid, "check not built yet in this round (planned, see DESIGN.md 4)")})
    m = {
        "version": 1,
        "setup_cmd": "sh tools/setup.sh",
        "hooks": {
            "guard": "FORSYS_VERIF",
            "enable": "environment variable FORSYS_VERIF=1 (set by harness/run.py); forsys is imported from /repo's working tree, nothing to build",
            "baseline_off_cmd": "cd /repo && env -u FORSYS_VERIF /venv/bin/python -m pytest -ra -q -p no:cacheprovider --timeout=900 --continue-on-collection-errors",
            "source_commits": ["6895099"],
            "add_only": True,
        },
        "engines": [{"name": "harness", "path": "/verif/harness",
                     "serves_properties": sorted(CHECKS),
                     "kind_free_text": "Hypothesis-driven property-based testing with analytic / reference-model "
                                       "oracles; exhaustive enumeration of small finite spaces"}],
        "checks": checks,
        "not_applicable": na,
        "notes": "All checks: python -m harness.run <id> --tier quick|thorough, cwd /verif, VERIF_SEED honoured. "
                 "Exit 0 held / 1 VIOLATION / 2 harness error. Known findings: known_findings.json.",
    }
    with open(os.path.join(VERIF, "MANIFEST.json"), "w") as f:
        json.dump(m, f, indent=1)
    print("MANIFEST.json written:", len(checks), "checks,", len(na), "not claimed")


if __name__ == "__main__":
    main()
