#!/venv/bin/python
"""For every *fixed* finding of known_findings.json: take a scratch copy of /repo with the fix commit reverted, search
with the property's quick check until it reports a violation there, and keep the saved failing input as
regress/<prop>/<finding>.json - a plain replay that the runner executes first on every run, so that the defect is
reported again the moment it returns (a fixed entry suppresses nothing).

usage: tools/make_regress.py [Dxx ...]      (scratch copies live under /tmp and are removed)
Each stored replay is verified: violation on the reverted copy, quiet on /repo.
"""
import json
import os
import shutil
import subprocess
import sys

VERIF = os.path.dirname(os.path.dirname(os.path.abspath(__file__)))
PY = "/venv/bin/python"


def sh(cmd, **kw):
    return subprocess.run(cmd, shell=isinstance(cmd, str), capture_output=True, text=True, **kw)


def reverted_copy(commit, dst):
    shutil.rmtree(dst, ignore_errors=True)
    shutil.copytree("/repo", dst, ignore=shutil.ignore_patterns("__pycache__", "*.egg-info"))
    sh("git checkout -q -- . ", cwd=dst)
    r = sh(f"git revert --no-commit {commit}", cwd=dst)
    if r.returncode != 0:
        sh("git revert --abort; git checkout -q -- .", cwd=dst)
        # later commits touched the same lines: apply the reverse patch with reduced context
        r = sh(f"git show {commit} -- forsys | git apply -R -C1 --recount", cwd=dst)
        if r.returncode != 0:
            return False, r.stderr[-300:]
    return True, ""


def run_check(prop, repo, seed, replay=None):
    env = dict(os.environ, FORSYS_REPO=repo, VERIF_SEED=str(seed), VERIF_REPLAY_DIR="/tmp/regress_replays")
    cmd = [PY, "-m", "harness.run", prop] + (["--replay", replay] if replay else ["--tier", "quick"])
    r = subprocess.run(cmd, cwd=VERIF, env=env, capture_output=True, text=True)
    return r.returncode, r.stdout


def main():
    want = set(sys.argv[1:])
    findings = json.load(open(os.path.join(VERIF, "known_findings.json")))["findings"]
    for k in findings:
        if k.get("status") != "fixed" or (want and k["id"] not in want):
            continue
        fid, commit = k["id"], k["commit"]
        scr = f"/tmp/revert_{fid}"
        ok, err = reverted_copy(commit, scr)
        if not ok:
            print(f"{fid}: could not revert {commit}: {err}")
            shutil.rmtree(scr, ignore_errors=True)
            continue
        for prop in k["properties"]:
            dst_dir = os.path.join(VERIF, "regress", prop)
            dst = os.path.join(dst_dir, f"{fid.lower()}_{commit}.json")
            if os.path.exists(dst):
                print(f"{fid}/{prop}: already stored")
                continue
            shutil.rmtree(os.path.join("/tmp/regress_replays", prop), ignore_errors=True)
            found = None
            for seed in range(1, 9):
                code, out = run_check(prop, scr, seed)
                lines = [l for l in out.splitlines() if l.startswith("VIOLATION")]
                if code == 1 and lines:
                    for l in lines:
                        path = l.split("replay=")[1].split()[0]
                        # must be quiet on the repaired tree and fail on the reverted one
                        c_rev, _ = run_check(prop, scr, 1, replay=path)
                        c_cur, _ = run_check(prop, "/repo", 1, replay=path)
                        if c_rev == 1 and c_cur == 0:
                            found = (path, l)
                            break
                    if found:
                        break
            if not found:
                print(f"{fid}/{prop}: no failing input found on the reverted copy (seeds 1..8)")
                continue
            os.makedirs(dst_dir, exist_ok=True)
            rec = json.load(open(found[0]))
            rec["regression_of"] = {"finding": fid, "fix_commit": commit, "what": k.get("what", "")[:300]}
            json.dump(rec, open(dst, "w"), indent=1, sort_keys=True)
            print(f"{fid}/{prop}: stored {os.path.relpath(dst, VERIF)}  [{found[1].split('[')[1].split(']')[0]}]")
        shutil.rmtree(scr, ignore_errors=True)
    shutil.rmtree("/tmp/regress_replays", ignore_errors=True)


if __name__ == "__main__":
    main()
