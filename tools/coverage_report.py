#!/venv/bin/python
"""Line coverage of the forsys sources by the quick checks (sys.monitoring recorder in harness/run.py, VERIF_COVER).
usage: tools/coverage_report.py [--run] [--dir /tmp/cover]   -> COVERAGE.md
--run executes every quick check (16 at a time) with the recorder switched on first."""
import glob
import json
import os
import subprocess
import sys
from concurrent.futures import ThreadPoolExecutor

VERIF = os.path.dirname(os.path.dirname(os.path.abspath(__file__)))
REPO = os.environ.get("FORSYS_REPO", "/repo")
d = "/tmp/cover"
if "--dir" in sys.argv:
    d = sys.argv[sys.argv.index("--dir") + 1]
CHECKS = [f"C{i:02d}" for i in range(1, 21)]
if "--run" in sys.argv:
    os.makedirs(d, exist_ok=True)
    for f in glob.glob(os.path.join(d, "*.json")):
        os.remove(f)

    def one(c):
        env = dict(os.environ, VERIF_COVER=os.path.join(d, c + ".json"))
        r = subprocess.run(["/venv/bin/python", "-m", "harness.run", c, "--tier", "quick"], cwd=VERIF, env=env,
                           capture_output=True, text=True)
        return c, r.returncode

    with ThreadPoolExecutor(16) as ex:
        for c, code in ex.map(one, CHECKS):
            print(c, "exit", code, flush=True)

cover = {}
by_check = {}
for f in glob.glob(os.path.join(d, "*.json")):
    for fn, ls in json.load(open(f)).items():
        cover.setdefault(fn, set()).update(ls)
        by_check.setdefault(fn, {})[os.path.basename(f)[:-5]] = len(ls)


def exec_lines(path):
    code = compile(open(path).read(), path, "exec")
    out = set()

    def walk(c):
        for _, _, ln in c.co_lines():
            if ln:
                out.add(ln)
        for k in c.co_consts:
            if hasattr(k, "co_lines"):
                walk(k)
    walk(code)
    return out


rows = ["# Lines of forsys executed by the quick checks (VERIF_SEED=1)", "",
        "Recorded with `VERIF_COVER` (sys.monitoring, every location once). `plot.py` is outside every property.", "",
        "| file | executable lines | executed | not executed (first line of each block) |", "|---|---|---|---|"]
for fn in sorted(os.listdir(os.path.join(REPO, "forsys"))):
    if not fn.endswith(".py") or fn in ("plot.py", "__init__.py", "exceptions.py"):
        continue
    path = os.path.join(REPO, "forsys", fn)
    ex = exec_lines(path)
    miss = sorted(ex - cover.get(fn, set()))
    src = open(path).read().splitlines()
    blocks = []
    for ln in miss:
        if blocks and ln - blocks[-1][1] <= 1:
            blocks[-1][1] = ln
        else:
            blocks.append([ln, ln])
    txt = "; ".join(f"{a}-{b} `{src[a - 1].strip()[:50].replace('|', '/')}`" for a, b in blocks[:14])
    if len(blocks) > 14:
        txt += f"; ... ({len(blocks) - 14} more blocks)"
    rows.append(f"| {fn} | {len(ex)} | {len(ex) - len(miss)} | {txt} |")
open(os.path.join(VERIF, "COVERAGE.md"), "w").write("\n".join(rows) + "\n")
print("written COVERAGE.md")
