#!/bin/sh
# usage: tools/confirm_seeded.sh <worktree> <mutant dir name>   -> prints a one-line verdict, writes <wt>/out/<m>/confirm.txt
WT="$1"; M="$2"
cd "$WT" || exit 2
git checkout -q -- . 
PYTHONPATH="$WT" /venv/bin/python out/$M/demo.py >/dev/null 2>&1; clean=$?
git apply out/$M/patch.diff || { echo "$WT $M patch-failed"; exit 2; }
PYTHONPATH="$WT" /venv/bin/python out/$M/demo.py > out/$M/demo_patched.log 2>&1; patched=$?
suite=$(PYTHONPATH="$WT" timeout 1500 /venv/bin/python -m pytest -q -p no:cacheprovider --timeout=900 2>&1 | tail -1)
git checkout -q -- .
echo "$WT $M demo_clean_exit=$clean demo_patched_exit=$patched suite: $suite" | tee out/$M/confirm.txt
