#!/usr/bin/env python3
"""Sensitivity measurement with hand-written mutants (DESIGN.md 4, lists 'M').

usage: tools/own_mutants.py [name-substring ...]     -> writes SENSITIVITY.md, prints one line per mutant

Each mutant is a single textual replacement in a scratch copy of /repo (never /repo itself); the listed quick checks
are run against the copy (FORSYS_REPO). 'killed' = some listed check exits 1 with a VIOLATION line.
These mutants are NOT filtered through the repository's own test suite (the seeded/ changes are); they only measure
whether a check reacts to the kind of change it is meant to detect.
"""
import os
import shutil
import subprocess
import sys
import tempfile
from multiprocessing.pool import ThreadPool

M = [
    # name, file, old, new, checks
    ("tangent-rotated-3deg", "forsys/edge.py", "        versor = vector / np.linalg.norm(vector)\r\n",
     "        versor = vector / np.linalg.norm(vector)\r\n        versor = np.array([versor[0] * 0.99863 - versor[1] * 0.05234, versor[0] * 0.05234 + versor[1] * 0.99863])\r\n",
     ["C02", "C01"]),
    ("far-end-sign-not-flipped", "forsys/edge.py", "            next_vid = all_vertices_ids[-2]", "            next_vid = all_vertices_ids[1]", ["C02"]),
    ("border-junction-gets-row", "forsys/fmatrix.py", "            if not big_edge.external and len(vertex.ownCells) > 2:",
     "            if not big_edge.external and len(vertex.ownCells) >= 2:", ["C02"]),
    ("at-least-two", "forsys/fmatrix.py", "            at_least_three = non_zero >= 3", "            at_least_three = non_zero >= 2", ["C02"]),
    ("less-than-four-le", "forsys/fmatrix.py", "            less_than_four = non_zero < 4", "            less_than_four = non_zero <= 4", ["C02"]),
    ("centre-from-mean", "forsys/virtual_edges.py", "    return center + origin\r\n", "    return np.array([np.mean(xs), np.mean(ys)]) + origin\r\n", ["C01", "C02"]),
    ("mean-one-row-E+1", "forsys/fmatrix.py", "        b[-1, -1] = total_edges\r\n\r\n        if total_borders != 0:\r\n            # cmatrix forces\r\n            cMatrix = np.array([0.] * total_edges + [1.] * (total_borders * 2) + [0.])\r\n            mprime = np.hstack((mprime, cMatrix.reshape(-1, 1)))\r\n            cMatrix = np.concatenate((cMatrix, np.zeros(1)))\r\n            mprime = np.vstack((mprime, cMatrix))\r\n\r\n            b = np.vstack((b, np.zeros(b.shape[1])))\r\n\r\n        return mprime, b\r\n    \r\n    def add_mean_one_before",
     "        b[-1, -1] = total_edges + 1\r\n\r\n        if total_borders != 0:\r\n            # cmatrix forces\r\n            cMatrix = np.array([0.] * total_edges + [1.] * (total_borders * 2) + [0.])\r\n            mprime = np.hstack((mprime, cMatrix.reshape(-1, 1)))\r\n            cMatrix = np.concatenate((cMatrix, np.zeros(1)))\r\n            mprime = np.vstack((mprime, cMatrix))\r\n\r\n            b = np.vstack((b, np.zeros(b.shape[1])))\r\n\r\n        return mprime, b\r\n    \r\n    def add_mean_one_before",
     ["C01", "C05"]),
    ("resample-picks-next", "forsys/virtual_edges.py", "                    nEdge.append(e[int(each * i)])", "                    nEdge.append(e[min(int(each * i) + (1 if i else 0), len(e) - 2)])", ["C11"]),
    ("resample-threshold-ge", "forsys/virtual_edges.py", "        if len(e) > ne:", "        if len(e) >= ne:", ["C11"]),
    ("velocity-sign", "forsys/time_series.py", "        return (np.array([v1.x, v1.y]) - np.array([v0.x, v0.y])) / (tf - ti)",
     "        return (np.array([v0.x, v0.y]) - np.array([v1.x, v1.y])) / (tf - ti)", ["C13", "C03"]),
    ("velocity-no-dt", "forsys/time_series.py", "        return (np.array([v1.x, v1.y]) - np.array([v0.x, v0.y])) / (tf - ti)",
     "        return (np.array([v1.x, v1.y]) - np.array([v0.x, v0.y]))", ["C13", "C03"]),
    ("velocity-forward-at-last", "forsys/time_series.py", "            tt1 = initial_time - 1       \r\n", "            tt1 = initial_time - 1\r\n            return np.array([0., 0.])\r\n", ["C13", "C03"]),
    ("velocity-row-j+2", "forsys/fmatrix.py", "                b[j + 1, 0] = value[1]", "                b[j + 1, 0] = value[0]", ["C13", "C03"]),
    ("b-round-1", "forsys/fmatrix.py", "        b = b.astype(np.float64).flatten().round(3)", "        b = b.astype(np.float64).flatten().round(1)", ["C03"]),
    ("mean-of-components", "forsys/fmatrix.py", "            average_velocity = np.mean([np.linalg.norm(vector) for vector in vector_of_vectors])",
     "            average_velocity = np.mean([np.abs(vector).mean() for vector in vector_of_vectors])", ["C13"]),
    ("tracking-not-injective", "forsys/time_series.py", "                if v1.id not in found:\r\n                    xcoord = (v1.x - v0.x)**2\r\n                    ycoord = (v1.y - v0.y)**2\r\n                    if xcoord + ycoord < maxspread**2:\r\n                        candidatesObverse.append(v1)",
     "                if True:\r\n                    xcoord = (v1.x - v0.x)**2\r\n                    ycoord = (v1.y - v0.y)**2\r\n                    if xcoord + ycoord < maxspread**2:\r\n                        candidatesObverse.append(v1)", ["C12"]),
    ("tracking-cutoff-0.02", "forsys/time_series.py", "        self.cutoff = 0.1", "        self.cutoff = 0.02", ["C12"]),
    ("tracking-first-candidate", "forsys/time_series.py", "            best = candidates[distances.index(min(distances))]", "            best = candidates[0]", ["C12"]),
    ("inverse-map-not-inverted", "forsys/time_series.py", "                tempMapping = {v: k for k, v in self.mapping[ii].items()}", "                tempMapping = self.mapping[ii]", ["C12", "C13"]),
    ("pressure-sign-swapped", "forsys/pmatrix.py", "        if self.frame.cells[big_edge_cells[0]].get_area_sign() > 0:", "        if self.frame.cells[big_edge_cells[0]].get_area_sign() < 0:", ["C04"]),
    ("pressure-normalized-curvature", "forsys/pmatrix.py", "        curvature = big_edge.calculate_total_curvature(normalized=False)", "        curvature = big_edge.calculate_total_curvature(normalized=True)", ["C04", "C06"]),
    ("pressure-orientation-second-cell", "forsys/pmatrix.py", "        if self.frame.cells[big_edge_cells[0]].get_area_sign() > 0:", "        if self.frame.cells[big_edge_cells[1]].get_area_sign() > 0:", ["C04", "C07"]),
    ("pressure-lagrange-dropped", "forsys/general_matrix.py", "            lhs_matrix_ls, rhs_matrix_ls = self.add_lagrange_multiplier(lhs_matrix_ls, rhs_matrix_ls, 0.)",
     "            lhs_matrix_ls, rhs_matrix_ls = self.add_lagrange_multiplier(lhs_matrix_ls, rhs_matrix_ls, 1.)", ["C04"]),
    ("nnls-maxiter-1", "forsys/fmatrix.py", "            xres, _ = scop.nnls(mprime, b, maxiter=kwargs.get(\"nnls_max_iter\"))", "            xres = np.clip(np.linalg.lstsq(mprime, b, rcond=None)[0], 0, None)", ["C05"]),
    ("angle-and-to-or", "forsys/fmatrix.py", "            if (big_edge[0] in self.deletes) and (big_edge[-1] in self.deletes):\r\n                big_edges_to_use.remove(big_edge)",
     "            if (big_edge[0] in self.deletes) or (big_edge[-1] in self.deletes):\r\n                big_edges_to_use.remove(big_edge)", ["C16"]),
    ("angle-ge-to-gt-min", "forsys/fmatrix.py", "            if np.max(angles) >= self.angle_limit:\r\n                self.deletes.add(vid)\r\n        \r\n        big_edges_to_use", "            if np.min(angles) >= self.angle_limit:\r\n                self.deletes.add(vid)\r\n        \r\n        big_edges_to_use", ["C16"]),
    ("minus-one-at-wrong-index", "forsys/fmatrix.py", "                xres_new[be_index] = -1\r\n", "                xres_new[xres_i if xres_i < len(xres_new) else be_index] = -1\r\n", ["C16"]),
    ("forces-unkeyed-frame0", "forsys/forsys.py", "        self.frames[when].assign_tensions_to_big_edges()", "        self.frames[0].assign_tensions_to_big_edges()", ["C10"]),
    ("matrix-cache", "forsys/forsys.py", "        # TODO: add matrix caching\r\n        self.force_matrices[when] = fmatrix.ForceMatrix(", "        # TODO: add matrix caching\r\n        if when in self.force_matrices:\r\n            return\r\n        self.force_matrices[when] = fmatrix.ForceMatrix(", ["C10"]),
    ("se-edge-sign", "forsys/surface_evolver.py", "            vlist = [edges[abs(e)].v1 if e > 0 else edges[abs(e)].v2 for e in r.edges]", "            vlist = [edges[abs(e)].v1 if e < 0 else edges[abs(e)].v2 for e in r.edges]", ["C14"]),
    ("se-round-2", "forsys/surface_evolver.py", "                xs.append(round(float(lines[i].split()[1]), 3))", "                xs.append(round(float(lines[i].split()[1]), 2))", ["C14"]),
    ("se-continuation-drops-token", "forsys/surface_evolver.py", "                    current_edge = current_edge+splitted[0:-1]", "                    current_edge = current_edge+splitted[1:-1]", ["C14"]),
    ("skeleton-border-le-2", "forsys/skeleton.py", "            if np.any([len(v.ownCells) == 1 for v in current_cell.vertices]):", "            if np.any([len(v.ownCells) <= 2 for v in current_cell.vertices]):", ["C15"]),
    ("skeleton-area-filter-2x", "forsys/skeleton.py", "if self.calculate_area(polygon) < 5 * ave_cell_area]", "if self.calculate_area(polygon) < 1.2 * ave_cell_area]", ["C15"]),
    ("skeleton-mirror-x", "forsys/skeleton.py", "                    coords[1] = self.max_y - coords[1]", "                    coords[0] = self.max_y - coords[0]", ["C15"]),
    ("myosin-median-to-mean", "forsys/myosin.py", "            intensity_to_use = np.mean(list(map(np.median,", "            intensity_to_use = np.mean(list(map(np.mean,", ["C17"]),
    ("myosin-window-short", "forsys/myosin.py", "    layer_range = np.arange(-layers, layers + 1)", "    layer_range = np.arange(-layers, layers)", ["C17"]),
    ("myosin-rescale-after-offset", "forsys/myosin.py", "    x_y_position = [(vertex.x * rescale[0]) + offset[0], (vertex.y * rescale[1]) + offset[1]]", "    x_y_position = [(vertex.x + offset[0]) * rescale[0], (vertex.y + offset[1]) * rescale[1]]", ["C17"]),
    ("stress-asymmetric", "forsys/stress_tensor.py", "np.array([[sigma_xx, sigma_xy], [sigma_xy, sigma_yy]], dtype=float)", "np.array([[sigma_xx, sigma_xy], [sigma_xy * 0.999, sigma_yy]], dtype=float)", ["C18"]),
    ("stress-radius-no-sqrt", "forsys/stress_tensor.py", "    min_distance = radius * np.sqrt(cells[\"area\"].mean() / np.pi)", "    min_distance = radius * (cells[\"area\"].mean() / np.pi)", ["C18"]),
    ("stress-pressure-sign", "forsys/stress_tensor.py", "            pressure_area_term = - np.sum(", "            pressure_area_term = np.sum(", ["C18"]),
    ("tess-orientation-swapped", "forsys/tessellation.py", "        vertices_in_cell = vertices_in_cell[::-1] if cid < 0 else vertices_in_cell", "        vertices_in_cell = vertices_in_cell[::-1] if cid > 0 and len(vertices_in_cell) % 2 else vertices_in_cell", ["C19"]),
    ("tess-maxdist-vs-mean", "forsys/tessellation.py", "            if np.max(matrix) > max_distance:", "            if np.mean(matrix) > max_distance:", ["C19"]),
    ("cell-area-roll", "forsys/cell.py", "        return 0.5 * (np.dot(x, np.roll(y,1)) - np.dot(y, np.roll(x, 1)))", "        return 0.5 * (np.dot(x, np.roll(y,1)) - np.dot(y, np.roll(x, -1)))", ["C20"]),
    ("cell-next-prev-swapped", "forsys/cell.py", "        return self.vertices[(self.vertices.index(v) + self.get_area_sign()) % len(self.vertices)]", "        return self.vertices[(self.vertices.index(v) + 1) % len(self.vertices)]", ["C20"]),
    ("interfaces-duplicates", "forsys/virtual_edges.py", "        if e[::-1] not in earr and e not in earr:", "        if e not in earr:", ["C08"]),
    ("frame-internal-ge2", "forsys/frames.py", "        self.internal_big_edges = [self.big_edges[eid] for eid, edge in enumerate(self.big_edges_list) \r\n                                    if eid not in self.external_edges_id and \r\n                                    (len(self.vertices[edge[0]].ownCells) > 2 or  ",
     "        self.internal_big_edges = [self.big_edges[eid] for eid, edge in enumerate(self.big_edges_list) \r\n                                    if eid not in self.external_edges_id and \r\n                                    (len(self.vertices[edge[0]].ownCells) >= 2 or  ", ["C08"]),
    ("replace-vertex-keeps-old", "forsys/cell.py", "            # add cell to vertex\r\n            vnew.add_cell(self.id)", "            # add cell to vertex\r\n            pass", ["C09", "C11"]),
    ("eid-from-vertex-ge1", "forsys/virtual_edges.py", "        if len(list(set(earr[j]) & set(vbel))) >= 2:", "        if len(list(set(earr[j]) & set(vbel))) >= 1:", ["C07", "C02"]),
    ("adimensional-ignored", "forsys/fmatrix.py", "        if len(vector_of_vectors) != 0 and kwargs.get(\"adimensional_velocity\",  False):", "        if len(vector_of_vectors) != 0 and False:", ["C06", "C13"]),
]


def run_one(m):
    name, rel, old, new, checks = m
    scr = tempfile.mkdtemp(prefix="ownmut_")
    try:
        subprocess.run(["cp", "-r", "/repo/.", scr], check=True)
        p = os.path.join(scr, rel)
        s = open(p, newline="").read()
        if "\r\n" not in s:
            old, new = old.replace("\r\n", "\n"), new.replace("\r\n", "\n")
        if s.count(old) != 1:
            return name, "NOT-APPLICABLE(old text found %d times)" % s.count(old), []
        open(p, "w", newline="").write(s.replace(old, new))
        res = []
        killed = False
        for c in checks:
            env = dict(os.environ, FORSYS_REPO=scr, VERIF_SEED=os.environ.get("VERIF_SEED", "1"))
            r = subprocess.run(["/venv/bin/python", "-m", "harness.run", c, "--tier", "quick"], cwd="/verif", env=env,
                               capture_output=True, text=True)
            first = next((l for l in r.stdout.splitlines() if l.startswith("VIOLATION")), "")
            sub = first.split("[")[1].split("]")[0] if "[" in first else ""
            res.append((c, r.returncode, sub))
            if r.returncode == 1:
                killed = True
        return name, "killed" if killed else "SURVIVED", res
    finally:
        shutil.rmtree(scr, ignore_errors=True)


def main():
    sel = [m for m in M if not sys.argv[1:] or any(a in m[0] for a in sys.argv[1:])]
    with ThreadPool(int(os.environ.get("MUT_PAR", "4"))) as pool:
        out = pool.map(run_one, sel)
    lines = ["# Sensitivity: hand-written mutants (tools/own_mutants.py)", "",
             "Each row: one textual change in a scratch copy of /repo, quick tier, VERIF_SEED=%s. Not filtered through "
             "the repository's own tests." % os.environ.get("VERIF_SEED", "1"), "",
             "| mutant | verdict | checks (exit code, first failing sub-check) |", "|---|---|---|"]
    for name, verdict, res in out:
        print(name, verdict, res, flush=True)
        lines.append(f"| {name} | {verdict} | " + "; ".join(f"{c}: {rc} {sub}" for c, rc, sub in res) + " |")
    if not sys.argv[1:]:
        open("/verif/SENSITIVITY.md", "w").write("\n".join(lines) + "\n")


if __name__ == "__main__":
    main()
