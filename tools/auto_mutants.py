#!/venv/bin/python
"""Automatic single-token mutants of the forsys sources, run against the quick checks of the properties anchored in the
mutated file (scratch copies of /repo under /tmp, one per worker; /repo itself is never touched).

usage: tools/auto_mutants.py --cover /tmp/cover [--per-file N] [--workers W] [--seed S] [--out AUTO_MUTANTS.md]
                             [--files a.py,b.py] [--suite]

Only lines that at least one quick check executes (per-check line coverage recorded with VERIF_COVER) are mutated; the
checks that execute the line run first. A mutant is 'killed' by the first check that exits 1, 'harness-error' if a
check exits 2 (a check that breaks instead of reporting), 'survived' otherwise. With --suite the survivors are also run
against the repository's own test suite, so that the ones both miss are listed separately for triage.
"""
import argparse
import io
import json
import os
import random
import shutil
import subprocess
import sys
import tokenize
from multiprocessing import Pool

REPO = "/repo"
VERIF = os.path.dirname(os.path.dirname(os.path.abspath(__file__)))

FILE_CHECKS = {
    "cell.py": ["C20", "C04", "C07", "C09", "C11"],
    "edge.py": ["C02", "C01", "C04", "C08", "C11", "C06", "C07"],
    "fmatrix.py": ["C02", "C05", "C16", "C01", "C03", "C13", "C10", "C06", "C07"],
    "forsys.py": ["C10", "C01", "C03", "C04", "C13", "C16", "C12"],
    "frames.py": ["C08", "C02", "C10", "C14", "C18", "C04", "C01", "C07"],
    "general_matrix.py": ["C04", "C05", "C10"],
    "myosin.py": ["C17"],
    "pmatrix.py": ["C04", "C07", "C06", "C10"],
    "skeleton.py": ["C15", "C09"],
    "stress_tensor.py": ["C18"],
    "surface_evolver.py": ["C14", "C09", "C11"],
    "tessellation.py": ["C19", "C09"],
    "time_series.py": ["C12", "C13", "C03", "C06", "C10"],
    "vertex.py": ["C09", "C11", "C08", "C20"],
    "virtual_edges.py": ["C11", "C08", "C02", "C09", "C15", "C01", "C07"],
    "wkt.py": ["C09"],
    "auxiliar.py": ["C02", "C01", "C17", "C13"],
    "borders.py": ["C02", "C01"],
}

OPS = {"<": ["<=", ">="], "<=": ["<", ">"], ">": [">=", "<="], ">=": [">", "<"], "==": ["!="], "!=": ["=="],
       "+": ["-"], "-": ["+"], "*": ["/"], "/": ["*"], "//": ["/"], "+=": ["-="], "-=": ["+="]}
NAMES = {"and": ["or"], "or": ["and"], "True": ["False"], "False": ["True"], "min": ["max"], "max": ["min"],
         "any": ["all"], "all": ["any"], "floor": ["ceil"], "ceil": ["floor"], "continue": ["pass"], "break": ["pass"],
         "argmin": ["argmax"], "argmax": ["argmin"], "sin": ["cos"], "cos": ["sin"], "not": [""]}


def mutants_of(path, covered):
    src = open(path, newline="").read()
    lines = src.splitlines(keepends=True)
    out = []
    toks = list(tokenize.generate_tokens(io.StringIO(src).readline))
    depth_ann = False
    for i, t in enumerate(toks):
        (r, c), (r2, c2) = t.start, t.end
        if r != r2 or r not in covered:
            continue
        line = lines[r - 1]
        if line.lstrip().startswith(("import ", "from ", "@", "def ", "class ")):
            continue
        reps = []
        if t.type == tokenize.OP and t.string in OPS:
            if t.string == "*" and (i == 0 or toks[i - 1].string in ("(", ",", "[", "=")):
                continue       # star-args
            reps = OPS[t.string]
        elif t.type == tokenize.NAME and t.string in NAMES:
            reps = NAMES[t.string]
        elif t.type == tokenize.NUMBER and t.string.isdigit():
            n = int(t.string)
            reps = [str(n + 1)] + ([str(n - 1)] if n >= 1 else [])
        for rep in reps:
            new_line = line[:c] + rep + line[c2:]
            out.append({"line": r, "col": c, "old": t.string, "new": rep, "text": line.strip()[:110],
                        "new_line": new_line})
    return out


def run_checks(scr, checks, seed):
    herr = None
    for c in checks:
        env = dict(os.environ, FORSYS_REPO=scr, VERIF_SEED=str(seed))
        env.pop("VERIF_COVER", None)
        try:
            r = subprocess.run(["/venv/bin/python", "-m", "harness.run", c, "--tier", "quick"], cwd=VERIF, env=env,
                               capture_output=True, text=True, timeout=1500)
            code, out = r.returncode, r.stdout
        except subprocess.TimeoutExpired:
            return "killed", c, "timeout (mutant hangs)"
        if code == 1:
            first = next((l for l in out.splitlines() if l.startswith("VIOLATION")), "")
            sub = first.split("[")[1].split("]")[0] if "[" in first else ""
            return "killed", c, sub
        if code != 0 and herr is None:
            err = next((l for l in out.splitlines() if "HARNESS-ERROR" in l), f"exit {code}")
            herr = (c, err[:100])          # a check that breaks instead of reporting: keep going, but remember
    if herr:
        return "harness-error", herr[0], herr[1]
    return "survived", "", ""


def job(args):
    wid_dir, fn, m, checks, seed, suite = args
    scr = os.path.join(wid_dir, f"w{os.getpid()}")
    if not os.path.isdir(scr):
        shutil.copytree(REPO, scr, ignore=shutil.ignore_patterns(".git", "__pycache__", "*.egg-info"))
    path = os.path.join(scr, "forsys", fn)
    orig = open(os.path.join(REPO, "forsys", fn), newline="").read()
    lines = orig.splitlines(keepends=True)
    lines[m["line"] - 1] = m["new_line"]
    with open(path, "w", newline="") as f:
        f.write("".join(lines))
    try:
        r = subprocess.run(["/venv/bin/python", "-m", "py_compile", path], capture_output=True)
        if r.returncode != 0:
            return fn, m, "invalid", "", ""
        # replay dirs of mutant runs must not pollute /verif/replay: harness writes there; cleaned by the caller
        res = run_checks(scr, checks, seed)
        if res[0] == "survived" and suite:
            r = subprocess.run(["/venv/bin/python", "-m", "pytest", "-q", "-x", "-p", "no:cacheprovider", "--timeout=900"],
                               cwd=scr, env=dict(os.environ, PYTHONPATH=scr), capture_output=True, text=True)
            tail = (r.stdout.strip().splitlines() or ["?"])[-1]
            res = ("survived", "suite:" + ("passes" if r.returncode == 0 else "fails"), tail[:80])
        return (fn, m) + res
    finally:
        with open(path, "w", newline="") as f:
            f.write(orig)


def main():
    ap = argparse.ArgumentParser()
    ap.add_argument("--cover", default="/tmp/cover")
    ap.add_argument("--per-file", type=int, default=25)
    ap.add_argument("--workers", type=int, default=12)
    ap.add_argument("--seed", type=int, default=1)
    ap.add_argument("--files", default="")
    ap.add_argument("--out", default=os.path.join(VERIF, "AUTO_MUTANTS.md"))
    ap.add_argument("--suite", action="store_true")
    ap.add_argument("--json", default="/tmp/auto_mutants.json")
    ap.add_argument("--rerun", default="", help="json of an earlier run: only its survivors and harness errors")
    a = ap.parse_args()
    cover = {}
    for f in sorted(os.listdir(a.cover)):
        d = json.load(open(os.path.join(a.cover, f)))
        for fn, ls in d.items():
            for ln in ls:
                cover.setdefault(fn, {}).setdefault(ln, []).append(f[:-5])
    rnd = random.Random(a.seed)
    files = [x for x in a.files.split(",") if x] or sorted(FILE_CHECKS)
    wdir = "/tmp/automut"
    shutil.rmtree(wdir, ignore_errors=True)
    os.makedirs(wdir)
    jobs = []
    rerun = None
    if a.rerun:
        rerun = {(r["file"], r["line"], r["old"], r["new"]) for r in json.load(open(a.rerun))
                 if r["status"] in ("survived", "harness-error")}
    for fn in files:
        ms = mutants_of(os.path.join(REPO, "forsys", fn), set(cover.get(fn, {})))
        rnd.shuffle(ms)
        if rerun is not None:
            ms = [m for m in ms if (fn, m["line"], m["old"], m["new"]) in rerun]
        for m in ms[:a.per_file if rerun is None else None]:
            first = [c for c in FILE_CHECKS[fn] if c in cover[fn][m["line"]]]
            rest = [c for c in cover[fn][m["line"]] if c not in first]
            checks = first + rest
            jobs.append((wdir, fn, m, checks, a.seed, a.suite))
    print(f"{len(jobs)} mutants", flush=True)
    results = []
    with Pool(a.workers) as pool:
        for res in pool.imap_unordered(job, jobs):
            fn, m, status, who, sub = res
            print(f"{status:14s} {fn}:{m['line']} {m['old']}->{m['new'] or '(removed)'}  {who} {sub} | {m['text']}", flush=True)
            results.append({"file": fn, "line": m["line"], "old": m["old"], "new": m["new"], "text": m["text"],
                            "status": status, "by": who, "sub": sub})
    shutil.rmtree(wdir, ignore_errors=True)
    shutil.rmtree(os.path.join(VERIF, "replay"), ignore_errors=True)
    json.dump(results, open(a.json, "w"), indent=1)
    results.sort(key=lambda r: (r["file"], r["line"], r["old"], r["new"]))
    n = len(results)
    k = sum(r["status"] == "killed" for r in results)
    rows = [f"# Automatic single-token mutants on lines the quick checks execute (VERIF_SEED={a.seed})", "",
            f"{n} mutants, {k} killed, {sum(r['status'] == 'survived' for r in results)} survived, "
            f"{sum(r['status'] == 'harness-error' for r in results)} harness errors, "
            f"{sum(r['status'] == 'invalid' for r in results)} invalid.", "",
            "| file:line | mutation | status | by | sub-check / note | source line |", "|---|---|---|---|---|---|"]
    for r in results:
        rows.append(f"| {r['file']}:{r['line']} | `{r['old']}` -> `{r['new'] or '(removed)'}` | {r['status']} | {r['by']} | "
                    f"{r['sub']} | `{r['text'].replace('|', '/')}` |")
    open(a.out, "w").write("\n".join(rows) + "\n")
    print(f"{k}/{n} killed")


if __name__ == "__main__":
    main()
