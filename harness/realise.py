"""Tissue -> forsys Vertex/SmallEdge/Cell dicts, built the way the parsers build them, plus the maps back to ground
truth so that results are always compared per physical interface / physical cell."""
import numpy as np

from .core import call
from .tissue import PRNG


class Labelling:
    """How a tissue is numbered and stored. All fields are plain data (JSON-able)."""

    def __init__(self, seed=0, relabel_v=False, relabel_e=False, relabel_c=False, shifts=False, flips="none",
                 flip_bits=None, perm_cells=False, start_at=None):
        self.seed = seed
        self.relabel_v = relabel_v
        self.relabel_e = relabel_e
        self.relabel_c = relabel_c
        self.shifts = shifts
        self.flips = flips            # 'none' (all CCW) | 'all' (all CW) | 'mixed' | 'bits'
        self.flip_bits = flip_bits    # int bit pattern over cells in id order, when flips == 'bits'
        self.perm_cells = perm_cells  # cells constructed (and inserted) in a permuted order
        self.start_at = start_at      # [tissue cell id, token as list]: that cell's stored list starts at that token

    def to_json(self):
        return dict(seed=self.seed, relabel_v=self.relabel_v, relabel_e=self.relabel_e, relabel_c=self.relabel_c,
                    shifts=self.shifts, flips=self.flips, flip_bits=self.flip_bits, perm_cells=self.perm_cells,
                    start_at=self.start_at)

    @staticmethod
    def from_json(d):
        return Labelling(**d) if d else Labelling()


def _idmap(n, rng, relabel):
    if not relabel:
        return list(range(n))
    if relabel == "perm0":
        # zero-based contiguous ids in a different order (id 0 lands on an arbitrary element)
        return [int(x) for x in rng.permutation(n)]
    # injective, with gaps, not starting at 0
    base = int(rng.integers(1, 50))
    steps = rng.integers(1, 4, size=n)
    ids = base + np.cumsum(steps)
    perm = rng.permutation(n)
    return [int(ids[p]) for p in perm]


class Real:
    """A realised mesh plus maps to ground truth."""

    def __init__(self):
        self.vertices = {}
        self.edges = {}
        self.cells = {}
        self.tok_of_vid = {}      # vid -> ('J', jid) | ('I', ri, k)
        self.vid_of_tok = {}
        self.cid_of_cell = {}     # tissue cell id -> forsys cell id
        self.cell_of_cid = {}
        self.ridge_of_pair = {}   # frozenset(vid,vid) -> ridge index
        self.n_int = {}
        self.flipped = {}         # forsys cid -> stored clockwise?

    def ridge_of_bigedge(self, vids):
        """Set of ridge indices covered by an interface given as list of vertex ids."""
        return {self.ridge_of_pair[frozenset((vids[i], vids[i + 1]))] for i in range(len(vids) - 1)}

    def jid(self, vid):
        tok = self.tok_of_vid[vid]
        return tok[1] if tok[0] == "J" else None


def realise(t, n_int, lab=None):
    """n_int: int, or dict ridge->int, or callable. Construction order: vertices first (cell by cell, first seen),
    then mesh edges de-duplicated in first-seen order, cells last (dict insertion = construction order)."""
    import forsys.vertex as fvertex
    import forsys.edge as fedge
    import forsys.cell as fcell

    lab = lab or Labelling()
    rng = PRNG(lab.seed)
    if callable(n_int):
        nof = n_int
    elif isinstance(n_int, dict):
        nof = lambda ri: int(n_int[ri])
    else:
        nof = lambda ri: int(n_int)

    R = Real()
    cell_ids = sorted(t.cells)
    R.n_int = {ri: nof(ri) for ri in range(len(t.ridges))}
    # coordinates of every token
    coords = {}
    for j, z in t.J.items():
        coords[("J", j)] = z
    for ri in range(len(t.ridges)):
        for k, z in enumerate(t.points(ri, R.n_int[ri])):
            coords[("I", ri, k)] = z

    # cell polygons
    polys = {}
    order_c = list(cell_ids)
    ncell = len(order_c)
    if lab.flips == "mixed":
        flipbits = [bool(rng.integers(0, 2)) for _ in range(ncell)]
        if ncell >= 2 and len(set(flipbits)) == 1:
            flipbits[0] = not flipbits[0]
    elif lab.flips == "all":
        flipbits = [True] * ncell
    elif lab.flips == "bits":
        flipbits = [bool((int(lab.flip_bits) >> i) & 1) for i in range(ncell)]
    else:
        flipbits = [False] * ncell
    if lab.perm_cells:
        perm = [int(x) for x in rng.permutation(ncell)]
        order_c = [order_c[k] for k in perm]
        flipbits = [flipbits[k] for k in perm]
    for idx, cid in enumerate(order_c):
        poly = t.cell_polygon(cid, lambda ri: R.n_int[ri])
        if lab.shifts:
            s = int(rng.integers(0, len(poly)))
            poly = poly[s:] + poly[:s]
        if flipbits[idx]:
            poly = poly[::-1]
        if lab.start_at and lab.start_at[0] == cid and tuple(lab.start_at[1]) in poly:
            s = poly.index(tuple(lab.start_at[1]))
            poly = poly[s:] + poly[:s]
        polys[cid] = poly

    # ids
    toks = []
    seen = set()
    for cid in order_c:
        for tok in polys[cid]:
            if tok not in seen:
                seen.add(tok)
                toks.append(tok)
    vmap = _idmap(len(toks), rng, lab.relabel_v)
    for tok, vid in zip(toks, vmap):
        z = coords[tok]
        R.vertices[vid] = fvertex.Vertex(vid, float(z.real), float(z.imag))
        R.tok_of_vid[vid] = tok
        R.vid_of_tok[tok] = vid
    # edges (first seen order)
    pairs = []
    seenp = set()
    for cid in order_c:
        poly = polys[cid]
        for k in range(len(poly)):
            a, b = R.vid_of_tok[poly[k]], R.vid_of_tok[poly[(k + 1) % len(poly)]]
            fs_ = frozenset((a, b))
            if fs_ not in seenp:
                seenp.add(fs_)
                pairs.append((a, b))
    emap = _idmap(len(pairs), rng, lab.relabel_e)
    for (a, b), eid in zip(pairs, emap):
        R.edges[eid] = call(fedge.SmallEdge, eid, R.vertices[a], R.vertices[b])
    cmap = _idmap(ncell, rng, lab.relabel_c)
    for idx, cid in enumerate(order_c):
        fcid = cmap[idx]
        R.cells[fcid] = call(fcell.Cell, fcid, [R.vertices[R.vid_of_tok[tok]] for tok in polys[cid]])
        R.cid_of_cell[cid] = fcid
        R.cell_of_cid[fcid] = cid
        R.flipped[fcid] = flipbits[idx]
    # pair -> ridge
    for ri, r in enumerate(t.ridges):
        chain = [("J", r.a)] + [("I", ri, k) for k in range(R.n_int[ri])] + [("J", r.b)]
        if not all(tok in R.vid_of_tok for tok in chain):
            continue
        for k in range(len(chain) - 1):
            R.ridge_of_pair[frozenset((R.vid_of_tok[chain[k]], R.vid_of_tok[chain[k + 1]]))] = ri
    return R


def make_frame(R, frame_id=0, time=0.0, gt=False):
    import forsys.frames as fframes
    return call(fframes.Frame, frame_id, R.vertices, R.edges, R.cells, time=time, gt=gt)
