"""Runner infrastructure shared by every check: context, counters, replay files, evidence, known findings.

Exit codes: 0 held / 1 violation (VIOLATION line printed) / 2 harness error.
"""
import contextlib
import hashlib
import json
import os
import sys
import time
import traceback
import warnings

_DEVNULL = open(os.devnull, "w")
VERIF = os.path.dirname(os.path.dirname(os.path.abspath(__file__)))
REPO = os.environ.get("FORSYS_REPO", "/repo")


def _jsonable(o):
    import numpy as np
    if isinstance(o, dict):
        return {str(k): _jsonable(v) for k, v in o.items()}
    if isinstance(o, (list, tuple, set, frozenset)):
        return [_jsonable(v) for v in o]
    if isinstance(o, complex):
        return [o.real, o.imag]
    if isinstance(o, (np.integer,)):
        return int(o)
    if isinstance(o, (np.floating,)):
        return float(o)
    if isinstance(o, np.bool_):
        return bool(o)
    if isinstance(o, np.ndarray):
        return _jsonable(o.tolist())
    if isinstance(o, float):
        if o != o or o in (float("inf"), float("-inf")):
            return repr(o)
        return o
    if isinstance(o, (int, str, bool)) or o is None:
        return o
    return repr(o)


def fingerprint(obj):
    return hashlib.sha1(json.dumps(_jsonable(obj), sort_keys=True).encode()).hexdigest()[:16]


class ForsysCrash(Exception):
    """An exception escaped from forsys code on an input the property covers."""

    def __init__(self, exc, where):
        super().__init__(f"{type(exc).__name__}: {exc} @ {where}")
        self.exc = exc
        self.where = where
        self.kind = type(exc).__name__


class Malformed(Exception):
    """A forsys result object does not have the documented shape (raised by harness accessors, reported as a
    violation by run_case)."""


def mesh_of(fsys):
    """The TimeSeries of a ForSys object built from two or more frames."""
    mesh = getattr(fsys, "mesh", None)
    if not hasattr(mesh, "mapping") or not isinstance(mesh.mapping, dict):
        raise Malformed(f"ForSys built from {len(fsys.frames)} frames carries no TimeSeries (mesh={str(mesh)[:40]!r})")
    return mesh


def _innermost_repo_frame(tb):
    where = "?"
    for fs in traceback.extract_tb(tb):
        fn = fs.filename.replace("\\", "/")
        if "/forsys/" in fn and "/harness/" not in fn:
            where = f"{os.path.basename(fn)}:{fs.name}"
    return where


def call(fn, *a, **k):
    """Call into forsys; any exception becomes ForsysCrash (harness bugs are not wrapped: they run outside)."""
    try:
        with warnings.catch_warnings(), contextlib.redirect_stdout(_DEVNULL):
            warnings.simplefilter("ignore")
            return fn(*a, **k)
    except Exception as e:  # noqa
        raise ForsysCrash(e, _innermost_repo_frame(e.__traceback__)) from e


class Ctx:
    MAX_REPLAYS_PER_SUB = 3

    def __init__(self, prop, tier, seed, worker=0):
        self.prop = prop
        self.tier = tier
        self.seed = seed
        self.worker = worker
        self.evaluations = 0
        self.nontrivial = set()
        self.classes = {}
        self.samples = []
        self.skipped = {}
        self.excluded_known = {}
        self.violations = []          # dicts
        self._viol_per_sub = {}
        self.known_hits = {}
        self.notes = []
        self.exhaustive = False
        self.t0 = time.time()
        self.replaying = False

    # ----- counters
    def count(self, cls, n=1):
        self.classes[cls] = self.classes.get(cls, 0) + n

    def skip(self, reason, n=1):
        self.skipped[reason] = self.skipped.get(reason, 0) + n

    def exclude_known(self, fid, n=1):
        self.excluded_known[fid] = self.excluded_known.get(fid, 0) + n

    def mark_nontrivial(self, params):
        self.nontrivial.add(fingerprint(params))

    def sample(self, s, cap=8):
        if len(self.samples) < cap:
            self.samples.append(_jsonable(s))

    def quick(self):
        return self.tier == "quick"

    def budget(self, quick, thorough):
        n = quick if self.tier == "quick" else thorough
        scale = float(os.environ.get("VERIF_BUDGET_SCALE", "1"))
        return max(1, int(n * scale))

    # ----- violations
    def violation(self, sub, params, observed=None, expected=None, detail=None, kind=None):
        """Record a violation: write replay file (bounded per sub-check) and print the VIOLATION line."""
        rec = {"property": self.prop, "sub": sub, "kind": kind, "params": _jsonable(params),
               "observed": _jsonable(observed), "expected": _jsonable(expected), "detail": _jsonable(detail)}
        n = self._viol_per_sub.get(sub, 0)
        self._viol_per_sub[sub] = n + 1
        if self.replaying:
            self.violations.append(rec)
            return
        if n >= self.MAX_REPLAYS_PER_SUB:
            self.violations.append({"property": self.prop, "sub": sub, "replay": None})
            return
        h = fingerprint([sub, kind, params])
        d = os.path.join(os.environ.get("VERIF_REPLAY_DIR") or os.path.join(VERIF, "replay"), self.prop)
        os.makedirs(d, exist_ok=True)
        path = os.path.join(d, f"{h}.json")
        with open(path, "w") as f:
            json.dump(rec, f, indent=1, sort_keys=True)
        rec["replay"] = path
        self.violations.append(rec)
        print(f"VIOLATION property={self.prop} replay={path}  [{sub}] observed={_short(observed)} expected={_short(expected)}",
              flush=True)

    def known(self, fid, n=1):
        self.known_hits[fid] = self.known_hits.get(fid, 0) + n

    # ----- merge (parallel workers)
    def export(self):
        return {"evaluations": self.evaluations, "nontrivial": sorted(self.nontrivial), "classes": self.classes,
                "samples": self.samples, "skipped": self.skipped, "excluded_known": self.excluded_known,
                "violations": self.violations, "known_hits": self.known_hits, "notes": self.notes,
                "exhaustive": self.exhaustive}

    def merge(self, d):
        self.evaluations += d["evaluations"]
        self.nontrivial.update(d["nontrivial"])
        for k in ("classes", "skipped", "excluded_known", "known_hits"):
            tgt = getattr(self, k)
            for kk, v in d[k].items():
                tgt[kk] = tgt.get(kk, 0) + v
        for s in d["samples"]:
            if len(self.samples) < 10:
                self.samples.append(s)
        self.violations.extend(d["violations"])
        self.notes.extend(d["notes"])


def _short(o, n=160):
    s = json.dumps(_jsonable(o)) if not isinstance(o, str) else o
    return s if len(s) <= n else s[:n] + "..."


# ---------------------------------------------------------------------------------- known findings
def load_known():
    p = os.path.join(VERIF, "known_findings.json")
    if not os.path.exists(p):
        return []
    with open(p) as f:
        return json.load(f)["findings"]


def open_findings(prop):
    return [k for k in load_known() if k.get("status") == "open" and prop in k.get("properties", [k.get("property")])]


# ---------------------------------------------------------------------------------- evidence
def write_evidence(ctx, rule, assumptions, extra=None):
    cov = {
        "evaluations": int(ctx.evaluations),
        "distinct_nontrivial": int(len(ctx.nontrivial)),
        "rule": rule,
        "samples": ctx.samples[:10],
        "classes": dict(sorted(ctx.classes.items())),
        "skipped": ctx.skipped,
        "excluded_known": ctx.excluded_known,
        "known_finding_hits": ctx.known_hits,
        "exhaustive": bool(ctx.exhaustive),
        "notes": ctx.notes[:20],
    }
    if extra:
        cov.update(extra)
    ev = {
        "property_id": ctx.prop,
        "tier": ctx.tier,
        "seed": int(ctx.seed),
        "level": "exploration",
        "coverage": cov,
        "assumptions": assumptions,
        "wall_s": round(time.time() - ctx.t0, 2),
        "violations": len(ctx.violations),
    }
    d = os.path.join(VERIF, "evidence")
    os.makedirs(d, exist_ok=True)
    with open(os.path.join(d, f"{ctx.prop}.json"), "w") as f:
        json.dump(_jsonable(ev), f, indent=1, sort_keys=True)
    return ev


# ---------------------------------------------------------------------------------- hypothesis driver
def hyp_settings(n, shrink=False):
    from hypothesis import settings, HealthCheck, Phase
    phases = [Phase.explicit, Phase.generate] + ([Phase.shrink] if shrink else [])
    return settings(max_examples=n, database=None, deadline=None, derandomize=False, report_multiple_bugs=False,
                    suppress_health_check=list(HealthCheck), phases=phases, print_blob=False)


def drive(ctx, strategy, check_case, n, label="", seed_offset=0):
    """Generate n cases from `strategy` and run check_case(params, ctx) on each.

    check_case records violations on ctx (collect-and-continue, so one shallow root cause does not hide others);
    ForsysCrash is recorded as a violation under sub 'crash:<where>'. Any other exception is a harness error.
    """
    import hypothesis
    from hypothesis import given

    @hypothesis.seed(int(ctx.seed) * 7919 + seed_offset)
    @hyp_settings(n)
    @given(strategy)
    def _t(params):
        ctx.evaluations += 1
        run_case(ctx, check_case, params, label)

    _t()


def run_case(ctx, check_case, params, label=""):
    # every case starts from the numpy error state forsys establishes at import (a failed lmfit call leaves it
    # switched off, which must not leak from one generated case into the next)
    import numpy as _np
    _np.seterr(all="raise")
    try:
        check_case(params, ctx)
    except Exception as e:
        if type(e).__name__ == "Degenerate":
            ctx.skip("generator: degenerate geometry rejected")
            return
        if isinstance(e, Malformed):
            ctx.violation("malformed-result", params, observed=str(e), expected="documented result structure", kind=label)
            return
        if isinstance(e, FloatingPointError):
            # forsys runs numpy with every floating-point error raised, and so does the harness arithmetic on what
            # forsys returned: an overflow / invalid operation there means the returned numbers are absurd or non-finite
            ctx.violation("non-finite-or-overflowing-result", params, observed=f"{type(e).__name__}: {e}",
                          expected="finite results of ordinary magnitude", kind=label)
            return
        if not isinstance(e, ForsysCrash):
            raise
        c = e
        ctx.violation(f"crash:{c.kind}@{c.where}", params, observed=str(c), expected="no exception", kind=label)


def ensure_repo_first():
    """forsys must be imported from the working tree under test."""
    if REPO not in sys.path[:1]:
        sys.path.insert(0, REPO)
    import forsys  # noqa
    f = os.path.realpath(forsys.__file__)
    if not f.startswith(os.path.realpath(REPO) + os.sep):
        print(f"HARNESS-ERROR: forsys imported from {f}, expected under {REPO}", flush=True)
        sys.exit(2)
