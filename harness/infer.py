"""Shared helpers for the inference properties (C01, C03, C05, C06, C07, C16): analytic force-balance matrix,
augmented system, conditioning-scaled tolerance, D1-free posing (also after resampling)."""
import cmath
import math

import numpy as np

from . import gen
from .core import call, ForsysCrash
from .realise import realise, make_frame


def eps_coef(theta, npts, fit):
    """Tolerance on one unit-tangent component by interface class.

    Measured on the repaired tree (256k single-arc fits + tissue runs): taubinSVD <= 3e-10 for theta >= 0.01 and
    <= 2e-9 below; dlite <= 1e-10 almost always, but its Levenberg-Marquardt iteration occasionally stops early in
    the flat valley of a nearly straight arc (seen: 1.2e-5 at theta = 0.0147, 7e-4 at theta = 0.003), so its class
    boundary is put at theta = 0.1.  Exactly straight multi-point interfaces: 2e-4 measured (both fits)."""
    if npts == 2:
        return 1e-9
    if theta == 0.0:
        return 3e-3
    if fit == "dlite":
        return 3e-3 if abs(theta) < 0.1 else 1e-6
    return 1e-6 if abs(theta) < 0.01 else 1e-7


def structure(t, nint, ignore_four=False, include=()):
    """Ground-truth system structure: (cols = internal ridges, rows = junction ids with a row, at = {j: ridges})."""
    caj = t.cells_at_junction()
    internal, ambiguous = t.classify_ridges(nint)
    internal = sorted(set(internal) | (set(include) & set(ambiguous)))
    at = {}
    for ri in internal:
        r = t.ridges[ri]
        for j in (r.a, r.b):
            at.setdefault(j, []).append(ri)
    rows = []
    for j in sorted(at):
        if len(caj[j]) >= 3 and len(at[j]) >= 3:
            if ignore_four and len(at[j]) >= 4:
                continue
            rows.append(j)
    return internal, rows, at, ambiguous


def true_matrix(t, cols, rows, at):
    """Analytic A (2*len(rows) x len(cols)) with outward unit tangents."""
    A = np.zeros((2 * len(rows), len(cols)))
    cidx = {ri: k for k, ri in enumerate(cols)}
    for r_i, j in enumerate(rows):
        for ri in at[j]:
            tg = t.tangent(ri, j)
            A[2 * r_i, cidx[ri]] = tg.real
            A[2 * r_i + 1, cidx[ri]] = tg.imag
    return A


def augment(A, b_top=None):
    """forsys' default formulation: [[A, 1],[1^T, 0]] [T; lambda] = [b; E]."""
    n_r, n_c = A.shape
    M = np.zeros((n_r + 1, n_c + 1))
    M[:n_r, :n_c] = A
    M[:n_r, n_c] = 1.0
    M[n_r, :n_c] = 1.0
    b = np.zeros(n_r + 1)
    if b_top is not None:
        b[:n_r] = b_top
    b[n_r] = n_c
    return M, b


def svals(M):
    with np.errstate(all="ignore"):
        return np.linalg.svd(M, compute_uv=False)


def full_column_rank(M, rel=1e-8):
    """True iff M has full column rank with sigma_min/sigma_max > rel (needs at least as many rows as columns)."""
    if M.shape[0] < M.shape[1] or M.shape[1] == 0:
        return False
    s = svals(M)
    return bool(len(s) == M.shape[1] and s[0] > 0 and s[-1] > rel * s[0])


def eps_matrix(t, nint, cols, rows, at, fit, npts_of=None):
    """Per-entry coefficient tolerance, same shape as A."""
    E = np.zeros((2 * len(rows), len(cols)))
    cidx = {ri: k for k, ri in enumerate(cols)}
    for r_i, j in enumerate(rows):
        for ri in at[j]:
            r = t.ridges[ri]
            npts = (npts_of(ri) if npts_of else nint[ri] + 2)
            e = eps_coef(r.theta if r.c is not None else 0.0, npts, fit)
            E[2 * r_i, cidx[ri]] = e
            E[2 * r_i + 1, cidx[ri]] = e
    return E


def tension_tolerance(M_true, x_true, Eps, db=0.0):
    """First-order bound on |x - x_true| : 10 * (row-wise |dM| |x| + db) / sigma_min(M_true) + 1e-9."""
    s = svals(M_true)
    if len(s) < M_true.shape[1] or s[-1] <= 1e-12 * s[0]:
        return math.inf, 0.0
    n_r, n_c = Eps.shape
    row = Eps @ np.abs(x_true[:n_c])
    delta = math.sqrt(float((row ** 2).sum()) + db ** 2)
    return 10.0 * delta / s[-1] + 1e-9, s[-1] / s[0]


# ------------------------------------------------------------------------------------------- posing with D1 avoidance
def _neighbour_chords(t, R, surviving):
    """For every (ridge, end junction): unit direction from the junction to the first surviving sample point."""
    out = {}
    for ri, r in enumerate(t.ridges):
        n = R.n_int[ri]
        chain = [("J", r.a)] + [("I", ri, k) for k in range(n)] + [("J", r.b)]
        pts = [t.J[r.a]] + t.points(ri, n) + [t.J[r.b]]
        # use the realised coordinates where the vertex exists (they are what forsys sees, e.g. after an exact snap)
        for k, tok in enumerate(chain):
            vid = R.vid_of_tok.get(tok)
            if vid is not None and vid in R.vertices:
                pts[k] = complex(R.vertices[vid].x, R.vertices[vid].y)
        alive = [k for k, tok in enumerate(chain) if k in (0, len(chain) - 1) or
                 (tok in R.vid_of_tok and R.vid_of_tok[tok] in surviving)]
        k1 = alive[1]
        k2 = alive[-2]
        d1 = pts[k1] - pts[0]
        d2 = pts[k2] - pts[-1]
        out[(ri, r.a)] = d1 / abs(d1)
        out[(ri, r.b)] = d2 / abs(d2)
    return out


def straddle_err(tg, ch):
    err = 0.0
    for a, b in ((tg.real, ch.real), (tg.imag, ch.imag)):
        cs = 1.0 if b >= 0 else -1.0
        if a != 0 and (1.0 if a > 0 else -1.0) != cs:
            err = max(err, 2 * abs(a))
    return err


def free_angle(t1, ends, chords, u, pad=1e-6):
    """Angle in [0, pi/2) for which no listed end straddles an axis (complement of a union of intervals)."""
    H = math.pi / 2
    iv = []
    for (ri, j) in ends:
        r = t1.ridges[ri]
        if r.c is None:
            continue
        a = cmath.phase(t1.tangent(ri, j))
        b = cmath.phase(chords[(ri, j)])
        d = (b - a + math.pi) % (2 * math.pi) - math.pi
        lo, hi = (a, a + d) if d >= 0 else (a + d, a)
        s = (-hi - pad) % H
        w = (hi - lo) + 2 * pad
        if w >= H:
            return None
        if s + w <= H:
            iv.append((s, s + w))
        else:
            iv.append((s, H))
            iv.append((0.0, s + w - H))
    iv.sort()
    free, cur = [], 0.0
    for s, e in iv:
        if s > cur:
            free.append((cur, s))
        cur = max(cur, e)
    if cur < H:
        free.append((cur, H))
    total = sum(e - s for s, e in free)
    if total <= 1e-7:
        return None
    x = (u % 1.0) * total
    for s, e in free:
        if x <= e - s:
            return s + x
        x -= e - s
    return free[-1][0]


class Built:
    pass


class MeshRejected(Exception):
    pass


def build_static(t0, nint, lab, pose, ne=None, replace_short=True, fit="dlite", ignore_four=False, avoid_d1=True,
                 stats=None):
    """Pose (reflect/scale, rotate, translate) -> realise -> optional generate_mesh -> Frame.
    With avoid_d1 the rotation is moved (by construction) to an angle at which no *used* interface end is in the
    known-finding class D1.  Returns Built or None (no D1-free rotation exists: counted by the caller)."""
    import forsys.virtual_edges as fve
    q = pose or {"rot_mode": "zero", "shift": [0.0, 0.0]}
    s = 10.0 ** q.get("logscale", 0.0)
    t1 = t0.similarity(scale=s, reflect=bool(q.get("reflect")))
    angle = gen.pose_angle(t1, q, nint)
    ext = t1.extent()
    sh = complex(q["shift"][0], q["shift"][1]) * ext
    cols, rows, at, ambiguous = structure(t1, nint, ignore_four)
    used_ends = [(ri, j) for j in rows for ri in at[j]]

    def make(angle, snap=False):
        t2 = t1.similarity(angle=angle, shift=sh)
        R = realise(t2, nint, lab)
        if snap:
            gen.snap_chord_exact(t2, R, q)
        v, e, c = R.vertices, R.edges, R.cells
        if ne is not None:
            try:
                v, e, c, _ = call(fve.generate_mesh, v, e, c, ne=ne, replace_short_edges=replace_short)
            except ForsysCrash as cr:
                if type(cr.exc).__name__ == "SegmentationArtifactException":
                    raise MeshRejected() from cr      # documented rejection: there is no resampled mesh to infer on
                raise
            R.vertices, R.edges, R.cells = v, e, c
        return t2, R

    try:
        t2, R = make(angle, snap=(q.get("rot_mode") == "snapchord" and ne is None))
    except MeshRejected:
        return "rejected"
    chords0 = _neighbour_chords(t2, R, set(R.vertices))
    moved = False
    if avoid_d1:
        bad = [e for e in used_ends if straddle_err(t2.tangent(*e), chords0[e]) > 1e-9]
        if bad:
            # chords in the unrotated frame (index structure of the resampling does not depend on the rotation)
            rot = cmath.exp(-1j * angle)
            chords1 = {k: v * rot for k, v in chords0.items()}
            phi = free_angle(t1, used_ends, chords1, (angle / (math.pi / 2)) % 1.0)
            if phi is None:
                return None
            angle = phi + (math.pi / 2) * int(angle // (math.pi / 2))
            moved = True
            t2, R = make(angle)
            chords0 = _neighbour_chords(t2, R, set(R.vertices))
            bad = [e for e in used_ends if straddle_err(t2.tangent(*e), chords0[e]) > 1e-9]
            if bad:
                return None
    if stats is not None and moved:
        stats["d1_rotation_moved"] = stats.get("d1_rotation_moved", 0) + 1
    B = Built()
    B.t, B.R, B.angle, B.chords = t2, R, angle, chords0
    B.cols, B.rows, B.at, B.ambiguous = cols, rows, at, ambiguous
    B.nint = nint
    B.ne = ne
    B.moved = moved
    return B


def npts_after(B, ri):
    """Number of points of ridge ri that survived resampling."""
    r = B.t.ridges[ri]
    n = B.R.n_int[ri]
    k = 2
    for i in range(n):
        tok = ("I", ri, i)
        if tok in B.R.vid_of_tok and B.R.vid_of_tok[tok] in B.R.vertices:
            k += 1
    return k


def ridge_of_path(R, vids):
    """Physical ridges covered by an interface (list of vertex ids), robust to resampling."""
    rs = set()
    for v in vids:
        tok = R.tok_of_vid.get(v)
        if tok and tok[0] == "I":
            rs.add(tok[1])
    if not rs:
        for i in range(len(vids) - 1):
            ri = R.ridge_of_pair.get(frozenset((vids[i], vids[i + 1])))
            if ri is not None:
                rs.add(ri)
    return rs


def tensions_by_ridge(frame, R, forces):
    """{ridge: reported tension} for the internal interfaces, via the physical identity of each interface."""
    out = {}
    for k, be in enumerate(frame.internal_big_edges):
        rs = ridge_of_path(R, be.get_vertices_ids())
        if len(rs) == 1:
            out[next(iter(rs))] = forces[k]
        else:
            out[("?", k)] = forces[k]
    return out


class StructureMismatch(Exception):
    pass


def observed_matrix(fm, R, cols, rows):
    """forsys' assembled matrix re-ordered to (rows = junction list, cols = ridge list); raises StructureMismatch
    if it does not have exactly these rows / columns."""
    M = np.asarray(fm.matrix, dtype=float)
    col_ridge = []
    for path in fm.big_edges_to_use:
        rs = ridge_of_path(R, path)
        col_ridge.append(next(iter(rs)) if len(rs) == 1 else None)
    if None in col_ridge or sorted(col_ridge) != sorted(cols):
        raise StructureMismatch(f"columns {sorted(map(str, col_ridge))[:8]} != expected {sorted(cols)[:8]}")
    got = {}
    for vid, r0 in fm.map_vid_to_row.items():
        tok = R.tok_of_vid.get(vid)
        if tok is None or tok[0] != "J":
            raise StructureMismatch(f"row for non-junction vertex {vid}")
        got[tok[1]] = r0
    if sorted(got) != sorted(rows):
        raise StructureMismatch(f"rows for junctions {sorted(got)[:8]} != expected {sorted(rows)[:8]}")
    if M.shape != (2 * len(rows), len(cols)):
        raise StructureMismatch(f"shape {M.shape}")
    cpos = {ri: k for k, ri in enumerate(col_ridge)}
    out = np.zeros((2 * len(rows), len(cols)))
    for r_i, j in enumerate(rows):
        for k, ri in enumerate(cols):
            out[2 * r_i, k] = M[got[j], cpos[ri]]
            out[2 * r_i + 1, k] = M[got[j] + 1, cpos[ri]]
    return out


def solve_aug(A, b_top=None):
    """Unconstrained least squares of forsys' default formulation [[A,1],[1^T,0]] [T;l] = [b;E]."""
    M, b = augment(A, b_top)
    with np.errstate(all="ignore"):
        x = np.linalg.lstsq(M, b, rcond=None)[0]
    return x[:A.shape[1]]


def solve_kkt(A, b_top=None):
    """forsys' 'lsq_linear' formulation: [[A^T A, 1],[1^T, 0]] [T;mu] = [A^T b; E]  (min |AT-b|^2 s.t. sum T = E)."""
    n = A.shape[1]
    K = np.zeros((n + 1, n + 1))
    K[:n, :n] = A.T @ A
    K[:n, n] = 1.0
    K[n, :n] = 1.0
    rhs = np.zeros(n + 1)
    if b_top is not None:
        rhs[:n] = A.T @ b_top
    rhs[n] = n
    with np.errstate(all="ignore"):
        x = np.linalg.lstsq(K, rhs, rcond=None)[0]
    return x[:n]


def propagated_tolerance(A_true, A_obs, x_true, b_top=None, db=None):
    """Sharp oracle for 'true tensions up to numerical tolerance': the admissible coefficient noise dA = A_obs - A_true
    (checked entrywise by the caller) moves the exact minimiser of either of forsys' two formulations away from the
    truth by e; the reported tensions may deviate by 3*max|e| + 1e-6 (+ the worst-case effect of the stated
    rounding db of the right-hand side).  Returns (tol, rel) with rel = ||dA||_2 / sigma_min(M_true)."""
    n_c = A_true.shape[1]
    xt = x_true[:n_c]
    e1 = np.max(np.abs(solve_aug(A_obs, b_top) - xt))
    e2 = np.max(np.abs(solve_kkt(A_obs, b_top) - xt))
    M, _ = augment(A_true)
    with np.errstate(all="ignore"):
        s = np.linalg.svd(M, compute_uv=False)
    extra = 0.0
    if db is not None:
        with np.errstate(all="ignore"):
            P = np.linalg.pinv(M)
        extra = float(np.max(np.abs(P[:n_c, :A_true.shape[0]]) @ np.abs(db)))
    rel = float(np.linalg.norm(A_obs - A_true, 2) / s[-1]) if s[-1] > 0 else math.inf
    return 3.0 * float(max(e1, e2)) + 3.0 * extra + 1e-6, rel


def interface_graph_connected(L):
    """True iff the graph whose edges are the rows of a +-1 incidence matrix L (two non-zeros per row) links all
    columns that have a non-zero into one connected group (the premise of the pressure solution clause)."""
    L = np.asarray(L)
    cols = [k for k in range(L.shape[1]) if np.any(L[:, k] != 0)]
    if not cols:
        return False
    parent = {k: k for k in cols}

    def find(a):
        while parent[a] != a:
            a = parent[a]
        return a

    for row in L:
        nz = np.nonzero(row)[0]
        if len(nz) == 2:
            parent[find(int(nz[0]))] = find(int(nz[1]))
    return len({find(k) for k in cols}) == 1
