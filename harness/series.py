"""Time series of one tissue topology with ground-truth correspondences (for C03, C06, C10, C12, C13)."""
import cmath
import math
from dataclasses import replace

import numpy as np

from . import gen
from .core import call
from .realise import realise, make_frame, Labelling
from .tissue import PRNG


def moved(t, Jnew):
    """Same topology and subtended angles, junctions at new positions (arcs re-drawn through the moved ends)."""
    ridges = []
    for r in t.ridges:
        if r.c is None:
            ridges.append(r)
            continue
        a, b = Jnew[r.a], Jnew[r.b]
        e = cmath.exp(1j * r.theta)
        c = (a * e - b) / (e - 1)
        ridges.append(replace(r, c=c))
    return replace(t, J=dict(Jnew), ridges=ridges)


def collapse_ridge(t, ri):
    """Contract internal ridge ri to its midpoint: its two triple junctions become one four-way junction (arcs are
    re-drawn through the moved end with their subtended angles). None if a neighbouring cell would keep < 3 sides."""
    r = t.ridges[ri]
    if r.left is None or r.right is None or r.a == r.b:
        return None
    if any(len(t.cells[c]) < 4 for c in (r.left, r.right)):
        return None
    a, b = r.a, r.b
    J = {j: z for j, z in t.J.items() if j != b}
    J[a] = (t.J[a] + t.J[b]) / 2
    ridges, remap = [], {}
    for k, q in enumerate(t.ridges):
        if k == ri:
            continue
        qa, qb = (a if q.a == b else q.a), (a if q.b == b else q.b)
        if qa == qb:
            return None
        remap[k] = len(ridges)
        ridges.append(replace(q, a=qa, b=qb))
    cells = {cid: [(remap[k], fwd) for k, fwd in cyc if k != ri] for cid, cyc in t.cells.items()}
    # old positions first, then move (arcs follow their ends)
    t2 = replace(t, J={j: t.J[j] for j in J}, ridges=ridges, cells=cells)
    return moved(t2, J)


def push_junctions_into_half_planes(t, nint, seed, frac=0.35, push=0.6):
    """Far from equilibrium: a drawn part of the junctions is pushed back along one of its interfaces by 0.6 of its
    shortest chord, so that all its interfaces leave inside one half-plane (reflex corner in the opposite cell).
    Returns (tissue, number moved) or (None, 0) when some cell stops being a simple polygon."""
    rng = PRNG(seed)
    J = dict(t.J)
    n = 0
    for j, rs in sorted(t.junction_ridges().items()):
        if len(rs) >= 3 and rng.uniform() < frac:
            ri = rs[int(rng.integers(0, len(rs)))]
            J[j] = t.J[j] - push * min(abs(t.J[t.ridges[r].a] - t.J[t.ridges[r].b]) for r in rs) * t.tangent(ri, j)
            n += 1
    t2 = moved(t, J)
    for c in t2.cells:
        toks = t2.cell_polygon(c, lambda k_: nint[k_])
        pts = [t2.J[tok[1]] if tok[0] == "J" else t2.points(tok[1], nint[tok[1]])[tok[2]] for tok in toks]
        if not simple_polygon(pts):
            return None, 0
    return t2, n


def simple_polygon(poly):
    """No two non-adjacent segments of the closed polygon intersect."""
    n = len(poly)

    def orient(a, b, c):
        return ((b - a).conjugate() * (c - a)).imag

    for i in range(n):
        a, b = poly[i], poly[(i + 1) % n]
        for j in range(i + 2, n):
            if i == 0 and j == n - 1:
                continue
            c, d = poly[j], poly[(j + 1) % n]
            if orient(a, b, c) * orient(a, b, d) < 0 and orient(c, d, a) * orient(c, d, b) < 0:
                return False
    return True


def junction_set(t, nint):
    """Junctions as forsys sees them: vertices with >= 3 mesh edges = tissue junctions with >= 3 ridges."""
    return sorted(j for j, rs in t.junction_ridges().items() if len(rs) >= 3)


def min_spacing(t, js):
    zs = np.array([t.J[j] for j in js])
    if len(zs) < 2:
        return math.inf
    d = np.abs(zs[:, None] - zs[None, :])
    d[np.arange(len(zs)), np.arange(len(zs))] = np.inf
    return float(d.min())


def maxcoord(ta, tb, js):
    zs = np.array([ta.J[j] for j in js] + [tb.J[j] for j in js])
    return float(max(zs.real.max() - zs.real.min(), zs.imag.max() - zs.imag.min()))


def displacement_field(kind, t, js, rng, amp):
    """Unit-scale displacement per junction (max modulus 1), scaled by amp afterwards."""
    cen = t.centre()
    ext = t.extent()
    out = {}
    if kind == "random":
        for j in t.J:
            out[j] = complex(*rng.normal(size=2))
    elif kind == "affine":
        a, b, c, d = rng.uniform(-1, 1, size=4)
        for j, z in t.J.items():
            w = (z - cen) / ext
            out[j] = complex(a * w.real + b * w.imag, c * w.real + d * w.imag)
    elif kind == "dilate":
        # pure growth about the centre (the extent changes from frame to frame)
        for j, z in t.J.items():
            out[j] = (z - cen) / ext
    elif kind == "local":
        # motion concentrated on one or two junctions, everything else at rest
        movers = [js[int(rng.integers(0, len(js)))] for _ in range(int(rng.integers(1, 3)))] if len(js) else []
        for j in t.J:
            out[j] = complex(*rng.normal(size=2)) if j in movers else 0j
    else:  # flow: drift + vortex
        drift = complex(*rng.normal(size=2))
        om = rng.uniform(-2, 2)
        for j, z in t.J.items():
            w = (z - cen) / ext
            out[j] = drift + 1j * om * w
    m = max(abs(out[j]) for j in t.J) or 1.0
    return {j: out[j] / m * amp for j in out}


class Series:
    """frames[k] = forsys Frame, R[k] = realisation (maps), T[k] = Tissue of frame k, times[k]."""

    def __init__(self):
        self.frames = {}
        self.R = {}
        self.T = {}
        self.times = []
        self.nint = None

    def vid(self, k, j):
        return self.R[k].vid_of_tok[("J", j)]

    def jid(self, k, vid):
        tok = self.R[k].tok_of_vid.get(vid)
        return tok[1] if tok and tok[0] == "J" else None


def realise_series(tissues, nint, times, lab_seeds, relabel=True, flips="none"):
    S = Series()
    S.nint = nint
    S.times = list(times)
    for k, t in enumerate(tissues):
        # independent numbering per frame: ids with gaps (never 0) or a permutation of 0..n-1 (id 0 somewhere else
        # in every frame), alternating with the drawn seed
        mode = ("perm0" if lab_seeds[k] % 2 else True) if relabel else False
        lab = Labelling(seed=lab_seeds[k], relabel_v=mode, relabel_e=relabel, relabel_c=False, shifts=relabel,
                        flips=flips)
        R = realise(t, nint, lab)
        S.R[k] = R
        S.T[k] = t
        S.frames[k] = make_frame(R, k, time=times[k])
    return S


def snapshot_positions(S):
    return {k: {vid: (v.x, v.y) for vid, v in S.R[k].vertices.items()} for k in S.R}
