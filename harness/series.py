"""Time series of one tissue topology with ground-truth correspondences (for C03, C06, C10, C12, C13)."""
import cmath
import math
from dataclasses import replace

import numpy as np

from . import gen
from .core import call
from .realise import realise, make_frame, Labelling
from .tissue import PRNG


def moved(t, Jnew):
    """Same topology and subtended angles, junctions at new positions (arcs re-drawn through the moved ends)."""
    ridges = []
    for r in t.ridges:
        if r.c is None:
            ridges.append(r)
            continue
        a, b = Jnew[r.a], Jnew[r.b]
        e = cmath.exp(1j * r.theta)
        c = (a * e - b) / (e - 1)
        ridges.append(replace(r, c=c))
    return replace(t, J=dict(Jnew), ridges=ridges)


def junction_set(t, nint):
    """Junctions as forsys sees them: vertices with >= 3 mesh edges = tissue junctions with >= 3 ridges."""
    return sorted(j for j, rs in t.junction_ridges().items() if len(rs) >= 3)


def min_spacing(t, js):
    zs = np.array([t.J[j] for j in js])
    if len(zs) < 2:
        return math.inf
    d = np.abs(zs[:, None] - zs[None, :])
    d[np.arange(len(zs)), np.arange(len(zs))] = np.inf
    return float(d.min())


def maxcoord(ta, tb, js):
    zs = np.array([ta.J[j] for j in js] + [tb.J[j] for j in js])
    return float(max(zs.real.max() - zs.real.min(), zs.imag.max() - zs.imag.min()))


def displacement_field(kind, t, js, rng, amp):
    """Unit-scale displacement per junction (max modulus 1), scaled by amp afterwards."""
    cen = t.centre()
    ext = t.extent()
    out = {}
    if kind == "random":
        for j in t.J:
            out[j] = complex(*rng.normal(size=2))
    elif kind == "affine":
        a, b, c, d = rng.uniform(-1, 1, size=4)
        for j, z in t.J.items():
            w = (z - cen) / ext
            out[j] = complex(a * w.real + b * w.imag, c * w.real + d * w.imag)
    else:  # flow: drift + vortex
        drift = complex(*rng.normal(size=2))
        om = rng.uniform(-2, 2)
        for j, z in t.J.items():
            w = (z - cen) / ext
            out[j] = drift + 1j * om * w
    m = max(abs(out[j]) for j in t.J) or 1.0
    return {j: out[j] / m * amp for j in out}


class Series:
    """frames[k] = forsys Frame, R[k] = realisation (maps), T[k] = Tissue of frame k, times[k]."""

    def __init__(self):
        self.frames = {}
        self.R = {}
        self.T = {}
        self.times = []
        self.nint = None

    def vid(self, k, j):
        return self.R[k].vid_of_tok[("J", j)]

    def jid(self, k, vid):
        tok = self.R[k].tok_of_vid.get(vid)
        return tok[1] if tok and tok[0] == "J" else None


def realise_series(tissues, nint, times, lab_seeds, relabel=True, flips="none"):
    S = Series()
    S.nint = nint
    S.times = list(times)
    for k, t in enumerate(tissues):
        # independent numbering per frame: ids with gaps (never 0) or a permutation of 0..n-1 (id 0 somewhere else
        # in every frame), alternating with the drawn seed
        mode = ("perm0" if lab_seeds[k] % 2 else True) if relabel else False
        lab = Labelling(seed=lab_seeds[k], relabel_v=mode, relabel_e=relabel, relabel_c=False, shifts=relabel,
                        flips=flips)
        R = realise(t, nint, lab)
        S.R[k] = R
        S.T[k] = t
        S.frames[k] = make_frame(R, k, time=times[k])
    return S


def snapshot_positions(S):
    return {k: {vid: (v.x, v.y) for vid, v in S.R[k].vertices.items()} for k in S.R}
