"""Reference decomposition of a mesh into interfaces, independent of forsys.virtual_edges.create_edges_new.

Works from the raw dicts only: vertex graph from `edges` (multigraph-aware: walks by edge id), junction = vertex with
>= 3 mesh edges, interfaces = maximal chains whose interior vertices have exactly 2 mesh edges.  Classification is
recomputed from the cell cycles (number of cells containing a vertex), never from ownCells / ownEdges.
"""


def canon(path):
    p = list(path)
    q = p[::-1]
    return tuple(p) if tuple(p) <= tuple(q) else tuple(q)


def mesh_graph(edges):
    """adjacency: vid -> list of (eid, other vid), from the edge objects' own end points."""
    adj = {}
    for eid, e in edges.items():
        a, b = e.v1.id, e.v2.id
        adj.setdefault(a, []).append((eid, b))
        adj.setdefault(b, []).append((eid, a))
    return adj


def cells_of_vertex(cells):
    m = {}
    for cid, c in cells.items():
        for v in c.vertices:
            m.setdefault(v.id, set()).add(cid)
    return m


def reference_interfaces(vertices, edges, cells):
    """Return (paths, info): paths = list of vertex-id lists (junction ... junction), each maximal chain once.
    Only chains made of mesh edges that belong to a cell which contains a junction are returned (cells without
    a junction, e.g. an isolated single cell, have no interface by the property's definition)."""
    adj = mesh_graph(edges)
    deg = {v: len(a) for v, a in adj.items()}
    junctions = {v for v, d in deg.items() if d >= 3}
    cov = cells_of_vertex(cells)
    cells_with_junction = {cid for cid, c in cells.items() if any(v.id in junctions for v in c.vertices)}
    # mesh edges of cells having a junction
    edge_cells = {}
    for cid, c in cells.items():
        ids = [v.id for v in c.vertices]
        for k in range(len(ids)):
            edge_cells.setdefault(frozenset((ids[k], ids[(k + 1) % len(ids)])), set()).add(cid)
    used_e = set()
    paths = []
    for j in sorted(junctions):
        for eid, nxt in adj[j]:
            if eid in used_e:
                continue
            path = [j, nxt]
            used_e.add(eid)
            prev_e = eid
            cur = nxt
            ok = True
            while cur not in junctions:
                if deg.get(cur, 0) != 2:
                    ok = False      # dangling end (degree 1): not an interface
                    break
                (e1, n1), (e2, n2) = adj[cur]
                ne, nn = (e2, n2) if e1 == prev_e else (e1, n1)
                if ne in used_e:
                    ok = False
                    break
                used_e.add(ne)
                path.append(nn)
                prev_e = ne
                cur = nn
            if not ok:
                continue
            pair_cells = set()
            for k in range(len(path) - 1):
                pair_cells |= edge_cells.get(frozenset((path[k], path[k + 1])), set())
            if pair_cells & cells_with_junction:
                paths.append(path)
    info = {"deg": deg, "junctions": junctions, "cov": cov, "cells_with_junction": cells_with_junction,
            "edge_cells": edge_cells}
    return paths, info


def is_internal(path, cov):
    """Property C08: every vertex in >= 2 cells and at least one end in >= 3 cells."""
    n = [len(cov.get(v, ())) for v in path]
    return all(x >= 2 for x in n) and (n[0] >= 3 or n[-1] >= 3)


def interface_cells(path, info):
    """The cells an interface separates: cells containing an interior vertex, or both ends for 2-point ones."""
    cov = info["cov"]
    if len(path) == 2:
        # the cells that have this mesh edge as a side (a third cell may touch both ends without owning the edge)
        return set(info["edge_cells"].get(frozenset(path), set()))
    s = None
    for v in path[1:-1]:
        s = set(cov.get(v, set())) if s is None else s & set(cov.get(v, set()))
    return s or set()
