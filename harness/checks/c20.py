"""C20 - cell geometry primitives: signed area, perimeter, orientation, navigation, additivity, neighbours."""
import math
from fractions import Fraction

import numpy as np
from hypothesis import strategies as st

from .. import gen
from ..core import call, drive
from ..realise import realise
from ..tissue import PRNG

PROP = "C20"
RULE = ("(a) Hypothesis draws simple polygons (star-shaped non-convex with drawn radii, or convex), 3..80 vertices, "
        "either orientation, and a translation/scale; every cyclic shift is enumerated; area is compared with an exact "
        "rational shoelace, perimeter with the closed-cycle length, navigation with the stored cycle; one Cell object "
        "is then edited in place 6 times (list reversed / shifted / coordinates mirrored) and re-checked each time. (b) tissues and "
        "hole-free sub-tissues: sum of |area| = area of the outline obtained by chaining mesh edges owned by exactly "
        "one cell; neighbours = cells sharing a vertex. Non-trivial = non-convex polygon or >= 10 vertices; tissue "
        "with >= 5 cells; distinct = fingerprint of the drawn parameters.")
ASSUMPTIONS = [
    "exact shoelace in fractions.Fraction on the float coordinates; relative tolerance 1e-12 * (sum |x_i y_j| terms)",
    "sign convention of the property: negative area for counter-clockwise cycles in a y-up frame",
]


def exact_area_ccw_positive(pts):
    n = len(pts)
    s = Fraction(0)
    mag = 0.0
    for i in range(n):
        x0, y0 = pts[i]
        x1, y1 = pts[(i + 1) % n]
        s += Fraction(x0) * Fraction(y1) - Fraction(x1) * Fraction(y0)
        mag += abs(x0 * y1) + abs(x1 * y0)
    return float(s / 2), mag / 2


def make_polygon(p):
    rng = PRNG(p["seed"])
    n = p["n"]
    if p["shape"] == "star":
        ang = np.sort(rng.uniform(0, 2 * math.pi, size=n))
        # keep angles distinct
        ang = ang + np.arange(n) * 1e-6
        rad = rng.uniform(0.3, 1.0, size=n)
    else:
        ang = np.sort(rng.uniform(0, 2 * math.pi, size=n)) + np.arange(n) * 1e-6
        rad = np.ones(n)
    pts = [(float(r * math.cos(a)), float(r * math.sin(a))) for r, a in zip(rad, ang)]   # CCW
    s = 10.0 ** p["logscale"]
    pts = [(x * s + p["shift"][0] * s, y * s + p["shift"][1] * s) for x, y in pts]
    return pts


@st.composite
def poly_params(draw):
    return {"shape": draw(st.sampled_from(["star", "star", "convex"])), "n": draw(st.integers(3, 80)),
            "seed": draw(st.integers(0, 2 ** 32 - 1)), "logscale": draw(st.sampled_from([0.0, -3.0, 3.0, 1.0])),
            "shift": [draw(st.integers(-1000, 1000)) / 10.0, draw(st.integers(-1000, 1000)) / 10.0],
            "factor": draw(st.sampled_from([0.5, 2.0, 3.0, 10.0]))}


def build_cell(pts, cid=7):
    import forsys.vertex as fv
    import forsys.cell as fc
    vs = [fv.Vertex(i + 3, x, y) for i, (x, y) in enumerate(pts)]
    return call(fc.Cell, cid, vs), vs


def check_polygon(p, ctx):
    pts = make_polygon(p)
    n = len(pts)
    a_true, mag = exact_area_ccw_positive(pts)
    if abs(a_true) < 1e-9 * mag:
        ctx.skip("degenerate polygon (area ~ 0)")
        return
    per_true = sum(math.hypot(pts[i][0] - pts[(i + 1) % n][0], pts[i][1] - pts[(i + 1) % n][1]) for i in range(n))
    tolA = 1e-12 * mag + 1e-300
    ref = None
    for orient in ("ccw", "cw"):
        base = pts if orient == "ccw" else pts[::-1]
        expected = -a_true if orient == "ccw" else a_true       # negative for CCW
        for s in range(n):
            cyc = base[s:] + base[:s]
            cell, vs = build_cell(cyc)
            a = call(cell.get_area)
            if abs(a - expected) > tolA:
                return ctx.violation("area", p, observed=float(a), expected=expected,
                                     detail={"orientation": orient, "shift": s})
            sg = call(cell.get_area_sign)
            if sg != (1 if expected > 0 else -1):
                return ctx.violation("area-sign", p, observed=sg, expected=(1 if expected > 0 else -1),
                                     detail={"orientation": orient, "shift": s})
            per = call(cell.get_perimeter)
            if abs(per - per_true) > 1e-11 * per_true:
                return ctx.violation("perimeter", p, observed=float(per), expected=per_true,
                                     detail={"orientation": orient, "shift": s})
            if s in (0, 1, n - 1):
                # navigation: walks the stored cycle in the sense given by the area sign; previous is the inverse
                for i, v in enumerate(vs):
                    nx = call(cell.get_next_vertex, v)
                    pv = call(cell.get_previous_vertex, v)
                    if nx is not vs[(i + sg) % n] or pv is not vs[(i - sg) % n]:
                        return ctx.violation("navigation", p, observed=[nx.id, pv.id],
                                             expected=[vs[(i + sg) % n].id, vs[(i - sg) % n].id],
                                             detail={"orientation": orient, "shift": s, "i": i})
                    if call(cell.get_previous_vertex, nx) is not v:
                        return ctx.violation("navigation-inverse", p, observed="prev(next(v)) != v", expected="v")
                seen = []
                v = vs[0]
                for _ in range(n):
                    seen.append(v.id)
                    v = call(cell.get_next_vertex, v)
                if v is not vs[0] or len(set(seen)) != n:
                    return ctx.violation("navigation-cycle", p, observed=len(set(seen)), expected=n)
    # the same Cell object edited in place (as test_get_area_sign does): reversal of the stored list, cyclic shift,
    # mirror image of the coordinates; after every edit area, sign and navigation follow the current cycle
    cell, vs = build_cell(pts)
    cur = list(vs)
    expected = -a_true
    edits = PRNG(p["seed"] ^ 0x5EED).integers(0, 3, size=6)
    call(cell.get_next_vertex, vs[0])          # navigate once before any edit
    call(cell.get_perimeter)
    for step, ed in enumerate(edits):
        if ed == 0:
            cur = cur[::-1]
            cell.vertices = cur
            expected = -expected
        elif ed == 1:
            k = 1 + step % (n - 1)
            cur = cur[k:] + cur[:k]
            cell.vertices = cur
        else:
            for v in cur:
                v.y = -v.y
            expected = -expected
        a = call(cell.get_area)
        sg = call(cell.get_area_sign)
        if abs(a - expected) > tolA or sg != (1 if expected > 0 else -1):
            return ctx.violation("area-after-in-place-edit", p, observed=[float(a), sg], expected=expected,
                                 detail={"edits": [int(x) for x in edits[:step + 1]]})
        for i in (0, n // 2, n - 1):
            nx = call(cell.get_next_vertex, cur[i])
            pv = call(cell.get_previous_vertex, cur[i])
            if nx is not cur[(i + sg) % n] or pv is not cur[(i - sg) % n]:
                return ctx.violation("navigation-after-in-place-edit", p, observed=[nx.id, pv.id],
                                     expected=[cur[(i + sg) % n].id, cur[(i - sg) % n].id],
                                     detail={"edits": [int(x) for x in edits[:step + 1]], "i": i})
        per = call(cell.get_perimeter)
        if abs(per - per_true) > 1e-11 * per_true:
            return ctx.violation("perimeter-after-in-place-edit", p, observed=float(per), expected=per_true,
                                 detail={"edits": [int(x) for x in edits[:step + 1]]})
    ctx.count("in-place-edits", len(edits))
    # scaling and translation laws (independent of the exact oracle)
    cell, _ = build_cell(pts)
    f = p["factor"]
    cell2, _ = build_cell([(x * f, y * f) for x, y in pts])
    a1, a2 = call(cell.get_area), call(cell2.get_area)
    if abs(a2 - f * f * a1) > 1e-9 * abs(f * f * a1) + 1e-12 * mag * f * f:
        return ctx.violation("area-scaling", p, observed=float(a2), expected=float(f * f * a1))
    p1, p2 = call(cell.get_perimeter), call(cell2.get_perimeter)
    if abs(p2 - f * p1) > 1e-10 * f * p1:
        return ctx.violation("perimeter-scaling", p, observed=float(p2), expected=float(f * p1))
    ext = max(max(abs(x), abs(y)) for x, y in pts)
    cell3, _ = build_cell([(x + 3 * ext, y - 2 * ext) for x, y in pts])
    mag3 = mag + 5 * ext * per_true
    if abs(call(cell3.get_area) - a1) > 1e-12 * mag3 * 4:
        return ctx.violation("area-translation", p, observed=float(call(cell3.get_area)), expected=float(a1))
    if abs(call(cell3.get_perimeter) - p1) > 1e-10 * p1:
        return ctx.violation("perimeter-translation", p, observed=float(call(cell3.get_perimeter)), expected=float(p1))
    # convexity (for the non-triviality rule)
    convex = True
    for i in range(n):
        ax, ay = pts[i]
        bx, by = pts[(i + 1) % n]
        cx, cy = pts[(i + 2) % n]
        if (bx - ax) * (cy - by) - (by - ay) * (cx - bx) < 0:
            convex = False
    ctx.count("shape:" + p["shape"])
    ctx.count("shifts-enumerated", 2 * n)
    if not convex or n >= 10:
        ctx.mark_nontrivial(p)
        ctx.sample({"params": p, "area_ccw": a_true, "perimeter": per_true, "convex": convex})


@st.composite
def tissue_params(draw):
    p = draw(gen.tissue_params(kinds=("voronoi", "moebius"), lattices=("hex", "square"), max_cells=30, min_cells=3,
                               allow_sub=True, n_int_max=8, pose=True, labels=True))
    return p


def outline_area(R):
    """Area enclosed by the mesh edges owned by exactly one cell (None if they do not form one simple closed loop)."""
    own = {}
    for cid, c in R.cells.items():
        ids = [v.id for v in c.vertices]
        for k in range(len(ids)):
            own.setdefault(frozenset((ids[k], ids[(k + 1) % len(ids)])), []).append(cid)
    border = [tuple(pr) for pr, cs in own.items() if len(cs) == 1]
    adj = {}
    for a, b in border:
        adj.setdefault(a, []).append(b)
        adj.setdefault(b, []).append(a)
    if not border or any(len(x) != 2 for x in adj.values()):
        return None
    start = border[0][0]
    loop = [start]
    prev, cur = None, start
    while True:
        nxt = [x for x in adj[cur] if x != prev]
        nx = nxt[0] if nxt else adj[cur][0]
        if nx == start:
            break
        loop.append(nx)
        prev, cur = cur, nx
        if len(loop) > len(adj) + 1:
            return None
    if len(loop) != len(adj):
        return None           # several loops: hole or disconnected
    pts = [(R.vertices[v].x, R.vertices[v].y) for v in loop]
    a, mag = exact_area_ccw_positive(pts)
    return abs(a), mag


def check_tissue(p, ctx):
    t0 = gen.build_base(p)
    t = gen.apply_sub(t0, p, connected=True, no_pinch=True)
    nint = gen.n_int_func(t, p)
    t2, _ = gen.apply_pose(t, p.get("pose"), nint)
    R = realise(t2, nint, gen.lab_of(p))
    # neighbours
    cov = {}
    for cid, c in R.cells.items():
        for v in c.vertices:
            cov.setdefault(v.id, set()).add(cid)
    for cid, c in R.cells.items():
        exp = set()
        for v in c.vertices:
            exp |= cov[v.id]
        exp.discard(cid)
        got = call(c.calculate_neighbors)
        if sorted(got) != sorted(exp) or len(got) != len(set(got)):
            return ctx.violation("neighbours", p, observed=sorted(got), expected=sorted(exp), detail={"cell": cid},
                                 kind="tissue")
    out = outline_area(R)
    total = sum(abs(call(c.get_area)) for c in R.cells.values())
    if out is None:
        ctx.count("outline-not-a-single-loop(hole)")
    else:
        oa, mag = out
        if abs(total - oa) > 1e-11 * mag * max(1, len(R.cells)) + 1e-9 * oa:
            return ctx.violation("area-additivity", p, observed=float(total), expected=float(oa), kind="tissue")
        ctx.count("additivity-checked")
    # orientation flag vs stored orientation
    for cid, c in R.cells.items():
        sg = call(c.get_area_sign)
        exp = 1 if R.flipped[cid] else -1
        if p.get("pose", {}).get("reflect"):
            pass      # realise() stores cycles CCW after the reflection as well
        if sg != exp:
            return ctx.violation("area-sign-tissue", p, observed=sg, expected=exp, detail={"cell": cid}, kind="tissue")
    if len(R.cells) >= 5 and out is not None:
        ctx.mark_nontrivial(p)
        ctx.sample({"params": p, "cells": len(R.cells), "sum_abs_area": total})


def run(ctx):
    drive(ctx, poly_params(), check_polygon, ctx.budget(quick=90, thorough=1200), label="polygon")
    drive(ctx, tissue_params(), check_tissue, ctx.budget(quick=120, thorough=600), label="tissue", seed_offset=1)


CASES = {"polygon": check_polygon, "tissue": check_tissue}
