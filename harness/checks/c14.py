"""C14 - Surface Evolver dumps are parsed faithfully (round-trip against the generating model)."""
import os
import shutil
import tempfile

import numpy as np
from hypothesis import strategies as st

from .. import gen, refdecomp, se_writer
from ..core import call, drive
from ..meshcheck import mesh_problems

PROP = "C14"
RULE = ("Hypothesis draws a tissue (1..40 cells incl. sub-tissues), sampling, id numbering with gaps, random stored "
        "edge directions (=> positive and negative references), loop start, wrap width 1..100 (continuation lines, "
        "trailer alone on a line), edge styles (density / density+attribute / other attribute / bare), orphan vertices "
        "and edges, coordinate scale 1e-3..1e6, CRLF or LF, densities per interface or per mesh edge (zero and values "
        "rounding to zero included), records in ascending or arbitrary order; an independent serialiser writes the dump and the parse "
        "is compared with the generating model. Non-trivial = dump has a negative edge reference, a wrapped face and "
        "an id gap; distinct = fingerprint of drawn parameters.")
ASSUMPTIONS = [
    "dumps are laid out like the shipped ones: one blank line before each section marker, bodies in face order, "
    "lagrange multiplier as 8th token of a body record",
    "orphan edges join an unattached vertex to anything; an extra edge between two face vertices is not generated",
]


@st.composite
def params(draw, tier):
    p = draw(gen.tissue_params(kinds=("voronoi", "moebius"), lattices=("hex", "square"), max_cells=40, min_cells=4,
                               allow_sub=True, n_int_max=10, pose=False, labels=False))
    p["wseed"] = draw(st.integers(0, 2 ** 32 - 1))
    p["wrap"] = draw(st.sampled_from([1, 2, 3, 5, 10, 10, 17, 100]))
    p["trailer_alone"] = draw(st.booleans())
    p["newline"] = draw(st.sampled_from(["\r\n", "\n"]))
    p["gaps"] = draw(st.booleans())
    p["styles"] = draw(st.sampled_from([["density"], ["density", "density_original"],
                                        ["density", "density_original", "other"],
                                        ["density", "other", "bare"], ["bare"]]))
    p["orphans"] = draw(st.sampled_from([0, 0, 1, 2, 3]))
    p["coord_logscale"] = draw(st.sampled_from([0.0, 0.0, -3.0, 2.0, 6.0]))
    p["single"] = draw(st.sampled_from([False, False, False, True]))
    p["per_edge_density"] = draw(st.sampled_from([False, True]))
    p["shuffle_records"] = draw(st.sampled_from([False, False, True]))
    return p


def rounded_ok(got, written, decimals):
    """`got` is `written` rounded to `decimals` places (either tie-breaking rule is accepted)."""
    q = 10.0 ** decimals
    return abs(got - written) <= 0.5 / q * (1 + 1e-9) + 1e-15 * abs(written) and \
        abs(got * q - round(got * q)) <= 1e-6 * max(1.0, abs(got * q))


def check_case(p, ctx):
    import forsys as fs
    t0 = gen.build_base(p)
    t = gen.apply_sub(t0, p, connected=False, no_pinch=False)
    if p.get("single"):
        t = t.subtissue([sorted(t.cells)[0]])
    nint = gen.n_int_func(t, p)
    m = se_writer.model_from_tissue(t, nint, p["wseed"], coord_scale=10.0 ** p["coord_logscale"], gaps=p["gaps"],
                                    styles=tuple(p["styles"]), orphans=p["orphans"],
                                    per_edge_density=bool(p.get("per_edge_density")),
                                    shuffle_records=bool(p.get("shuffle_records")))
    text = se_writer.write_dump(m, wrap=p["wrap"], newline=p["newline"], trailer_alone=p["trailer_alone"])
    d = tempfile.mkdtemp(prefix="c14_")
    try:
        fn = os.path.join(d, "x.dmp")
        with open(fn, "w", newline="") as f:
            f.write(text)
        se = call(fs.surface_evolver.SurfaceEvolver, fn)
        V, E, C = se.vertices, se.edges, se.cells
        if p["wseed"] % 4 == 0:
            # the lattice asked for a second time from the same parser object (fresh elements, same content)
            V, E, C = call(se.create_lattice)
            ctx.count("lattice-created-a-second-time")
        # ---- vertices
        used = set()
        for fid, loop, lm, area in m.faces:
            for e in loop:
                v1, v2 = m.edges[abs(e)][0], m.edges[abs(e)][1]
                used.add(v1)
                used.add(v2)
        if set(V) != used:
            return ctx.violation("vertex-set", p, observed={"extra": sorted(set(V) - used)[:5],
                                                            "missing": sorted(used - set(V))[:5]}, expected="face vertices")
        for vid in used:
            x, y = m.vertices[vid]
            # what a reader sees: the 15-significant-digit text
            xe, ye = float(f"{float(x):.15g}"), float(f"{float(y):.15g}")
            if not rounded_ok(V[vid].x, xe, 3) or not rounded_ok(V[vid].y, ye, 3) or V[vid].id != vid:
                return ctx.violation("vertex-coords", p, observed=[V[vid].x, V[vid].y], expected=[xe, ye],
                                     detail={"vid": vid})
        # ---- edges
        exp_edges = {eid: ed for eid, ed in m.edges.items() if ed[0] in used and ed[1] in used}
        if set(E) != set(exp_edges):
            return ctx.violation("edge-set", p, observed={"extra": sorted(set(E) - set(exp_edges))[:5],
                                                          "missing": sorted(set(exp_edges) - set(E))[:5]},
                                 expected="edges between face vertices")
        for eid, (v1, v2, dens, style) in exp_edges.items():
            e = E[eid]
            gt = float(f"{float(dens):.15g}") if dens is not None else 1
            if e.v1.id != v1 or e.v2.id != v2 or not rounded_ok(e.gt, gt, 4) or e.id != eid:
                return ctx.violation("edge-record", p, observed=[e.v1.id, e.v2.id, e.gt], expected=[v1, v2, gt],
                                     detail={"eid": eid, "style": style})
        # ---- cells
        if [int(k) for k in C] != [f[0] for f in m.faces]:
            return ctx.violation("cell-ids", p, observed=[int(k) for k in C][:8], expected=[f[0] for f in m.faces][:8])
        for fid, loop, lm, area in m.faces:
            cyc = [m.edges[abs(e)][0] if e > 0 else m.edges[abs(e)][1] for e in loop]
            got = [v.id for v in C[fid].vertices]
            if got != cyc:
                return ctx.violation("cell-cycle", p, observed=got[:10], expected=cyc[:10], detail={"face": fid})
            gp = float(f"{float(lm):.15g}")
            if not rounded_ok(C[fid].gt_pressure, gp, 4):
                return ctx.violation("cell-pressure", p, observed=C[fid].gt_pressure, expected=gp, detail={"face": fid})
        probs = mesh_problems(V, E, C)
        if probs:
            return ctx.violation("mesh-consistency", p, observed=probs[:3], expected="consistent")
        # ---- frame reference tensions
        frame = call(fs.frames.Frame, 0, V, E, C, time=0, gt=True)
        pair_gt = {}
        for eid, e in E.items():
            pair_gt.setdefault(frozenset((e.v1.id, e.v2.id)), []).append(e.gt)
        for k, be in frame.big_edges.items():
            path = frame.big_edges_list[k]
            vals = []
            amb = False
            for i in range(len(path) - 1):
                g = pair_gt[frozenset((path[i], path[i + 1]))]
                if len(set(g)) > 1:
                    amb = True
                vals.append(g[0])
            if amb:
                continue
            if abs(be.gt - float(np.mean(vals))) > 1e-12:
                return ctx.violation("interface-reference-tension", p, observed=float(be.gt),
                                     expected=float(np.mean(vals)), detail={"interface": list(path)[:6]})
        neg = any(e < 0 for f in m.faces for e in f[1])
        wrapped = any(len(f[1]) > p["wrap"] or p["trailer_alone"] for f in m.faces)
        ctx.count("styles:" + "+".join(p["styles"]))
        if p.get("per_edge_density"):
            ctx.count("per-edge-densities(incl. zero)")
        if p.get("shuffle_records"):
            ctx.count("records-not-in-ascending-order")
        if p["orphans"]:
            ctx.count("has-orphans")
        if p["newline"] == "\n":
            ctx.count("LF")
        if neg and wrapped and p["gaps"]:
            ctx.mark_nontrivial(p)
            ctx.sample({"params": p, "faces": len(m.faces), "edges": len(m.edges), "first_face_line": text.split("faces")[1].split(p["newline"])[1][:80]})
    finally:
        shutil.rmtree(d, ignore_errors=True)


def check_shipped(p, ctx):
    """The shipped dumps re-serialised by the independent writer must parse to the same mesh as the originals."""
    import forsys as fs
    from ..fixtures import DATA
    fn = os.path.join(DATA, p["file"])
    se = call(fs.surface_evolver.SurfaceEvolver, fn)
    probs = mesh_problems(se.vertices, se.edges, se.cells)
    if probs:
        return ctx.violation("mesh-consistency-shipped", p, observed=probs[:3], expected="consistent")
    ctx.count("shipped-dump")


def run_serial(ctx):
    from ..core import run_case
    for f in ["initial_furrow.dmp", "last_furrow.dmp", "furrow_gauss_velocity/stage3.dmp", "12_12/step_20.dmp"]:
        ctx.evaluations += 1
        run_case(ctx, check_shipped, {"file": f}, "shipped")


def run(ctx):
    n = ctx.budget(quick=200, thorough=1500)
    drive(ctx, params(ctx.tier), check_case, n, label="dump")


CASES = {"dump": check_case, "shipped": check_shipped}
