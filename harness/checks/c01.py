"""C01 - static inference recovers the tensions of any tissue in exact force balance."""
import math

import numpy as np
from hypothesis import strategies as st

from .. import gen, infer
from ..core import call, drive
from ..realise import make_frame

PROP = "C01"
RULE = ("Hypothesis draws an equilibrium tissue (Voronoi diagram with tension = site distance, its Moebius image with "
        "exact circular arcs, or an equal-tension hex/square lattice), optional sub-tissue, 0..16 interior points per "
        "interface, pose, labelling, optional generate_mesh(ne=2..12), solver method and circle fit; forsys' reported "
        "tensions are compared per physical interface with T_true/mean(T_true). Non-trivial = >=3 used junctions, "
        "one of which joins three interfaces with max/min true tension >= 1.2, system uniquely determined and "
        "conditioning-scaled tolerance <= 0.02; distinct = fingerprint of the drawn parameters.")
ASSUMPTIONS = [
    "ground truth is analytic (Maxwell reciprocal figure; Moebius maps preserve force balance and tensions)",
    "the assembled matrix is first compared entrywise with the analytic tangents (per-class circle-fit noise floors); "
    "tolerance = 3 x the deviation from the truth of the exact minimisers (augmented least squares and KKT "
    "formulation) of the system with the observed coefficients + 1e-6; cases with tolerance > 0.02 are skipped and "
    "counted",
    "rotations are moved by construction off the known-finding class D1; tissues whose augmented system is rank "
    "deficient although force balance alone determines the tensions are the known-finding class D3",
    "lmfit ('lsq') converges to ~1.5e-4: its tolerance is max(tol, 1e-3); 'lsq_linear' solves bordered normal "
    "equations: max(tol, 3e-4, 1e-7 / cond^2)",
]


@st.composite
def params(draw, tier):
    big = 40 if tier == "thorough" else 22
    p = draw(gen.tissue_params(kinds=("voronoi", "moebius", "moebius", "moebius"), lattices=("hex",),
                               max_cells=big, min_cells=10, allow_sub=True, n_int_max=16))
    if p.get("sub") and draw(st.booleans()):
        p["sub"] = None
    p["fit"] = draw(st.sampled_from(["dlite", "taubinSVD"]))
    p["method"] = draw(st.sampled_from([None, None, "lsq_linear", "lsq"]))
    p["allow_negatives"] = draw(st.booleans())
    p["ne"] = draw(st.one_of(st.none(), st.integers(2, 12)))
    return p


def check_case(p, ctx):
    import forsys as fs
    stats = {}
    t0 = gen.build_base(p)
    if p.get("sub") and ctx is not None:
        pass
    t0 = gen.apply_sub(t0, p, connected=True, no_pinch=True, stats=stats)
    nint = gen.n_int_func(t0, p)
    # a two-point interface on the tissue border is contracted by generate_mesh (C11): the contracted tissue is no
    # longer the equilibrium tissue, so resampling of such meshes is done with replace_short_edges=False
    caj = t0.cells_at_junction()
    contractible = any(nint[ri] == 0 and len(caj[r.a]) < 3 and len(caj[r.b]) < 3 for ri, r in enumerate(t0.ridges))
    if contractible and p.get("ne"):
        ctx.count("resample-without-contraction")
    B = infer.build_static(t0, nint, gen.lab_of(p), p.get("pose"), ne=p.get("ne"), fit=p["fit"], stats=stats,
                           replace_short=not contractible)
    for k, v in stats.items():
        ctx.count(k, v)
    if B == "rejected":
        ctx.skip("generate_mesh rejected the mesh (SegmentationArtifactException)")
        return
    if B is None:
        ctx.exclude_known("D1")
        ctx.count("excluded:D1-no-free-rotation")
        return
    t, R = B.t, B.R
    cols, rows, at = B.cols, B.rows, B.at
    if len(rows) < 3 or len(cols) < 3:
        ctx.count("trivial:<3 junction rows")
        return
    if B.ambiguous:
        ctx.skip("has two-point notch edge (classification ambiguous by the statement)")
        return
    A = infer.true_matrix(t, cols, rows, at)
    sA = infer.svals(A)
    E = len(cols)
    rankA = int((sA > 1e-9 * sA[0]).sum()) if len(sA) else 0
    if rankA != E - 1 or (len(sA) >= E and False):
        ctx.skip("force balance does not determine tensions up to scale (rank(A) != E-1)")
        ctx.count(f"undetermined:{p['kind']}:{'sub' if p.get('sub') else 'whole'}")
        return
    if E >= 2 and len(sA) >= E - 1 and sA[E - 2] < 1e-6 * sA[0]:
        ctx.skip("rank gap of analytic matrix < 1e-6")
        return
    T = np.array([t.ridges[ri].T for ri in cols])
    x_true = np.append(T / T.mean(), 0.0)
    M, b = infer.augment(A)
    sM = infer.svals(M)
    if len(sM) < E + 1 or sM[-1] < 1e-9 * sM[0]:
        ctx.known("D3")
        ctx.exclude_known("D3")
        ctx.count("excluded:D3-augmented-system-rank-deficient")
        return
    Eps = infer.eps_matrix(t, nint, cols, rows, at, p["fit"], npts_of=lambda ri: infer.npts_after(B, ri))
    # ---- run forsys
    frame = make_frame(R)
    fsys = call(fs.ForSys, {0: frame})
    kw_b = {"circle_fit_method": p["fit"]}
    if p["kind"] not in ("voronoi", "moebius") or p["seed"] % 2 == 0:
        kw_b["angle_limit"] = np.inf       # lattices have exactly straight-through junctions, excluded by design (C16)
    call(fsys.build_force_matrix, when=0, **kw_b)
    try:
        A_obs = infer.observed_matrix(fsys.force_matrices[0], R, cols, rows)
    except infer.StructureMismatch as e:
        return ctx.violation("structure", p, observed=str(e), expected="one column per internal interface, two rows "
                             "per junction of >=3 cells and >=3 internal interfaces")
    dA = np.abs(A_obs - A)
    if np.any(dA > Eps + 1e-15):
        i, k = np.unravel_index(np.argmax(dA - Eps), dA.shape)
        return ctx.violation("coefficient", p, observed=float(A_obs[i, k]), expected=float(A[i, k]),
                             detail={"junction": rows[i // 2], "ridge": cols[k], "tol": float(Eps[i, k]),
                                     "moved_for_D1": B.moved})
    tol, rel = infer.propagated_tolerance(A, A_obs, x_true)
    cond = float(sM[-1] / sM[0])
    if rel > 0.05 or tol > 0.02:
        ctx.skip("conditioning: coefficient noise / sigma_min > 0.05 or tolerance > 0.02")
        return
    if p["method"] == "lsq":
        tol = max(tol, 1e-3)      # lmfit least squares: measured <= 1.5e-4
    if p["method"] == "lsq_linear":
        # scipy.lsq_linear (trf, tol 1e-10) on the bordered normal equations: its error grows with the squared
        # condition number (measured 3e-5 at cond 0.02, 9.5e-4 at cond 0.0085, 7e-4 at cond 0.003)
        tol = max(tol, 3e-4, 1e-7 / max(cond, 1e-6) ** 2)
        if tol > 0.02:
            ctx.skip("conditioning: lsq_linear tolerance > 0.02")
            return
    kw = {"allow_negatives": p["allow_negatives"]}
    if p["method"]:
        kw["method"] = p["method"]
    call(fsys.solve_stress, when=0, **kw)
    forces = fsys.forces[0]
    vals = [forces[k] for k in range(len(frame.internal_big_edges))]
    if len(vals) != E:
        return ctx.violation("n-results", p, observed=len(vals), expected=E)
    if not np.all(np.isfinite(vals)):
        return ctx.violation("non-finite", p, observed=[float(v) for v in vals][:10], expected="finite")
    by_ridge = infer.tensions_by_ridge(frame, R, vals)
    worst = None
    for k, ri in enumerate(cols):
        if ri not in by_ridge:
            return ctx.violation("interface-missing", p, observed=sorted(map(str, by_ridge))[:10], expected=ri)
        err = abs(by_ridge[ri] - x_true[k])
        if err > tol and (worst is None or err > worst[0]):
            worst = (err, ri, float(by_ridge[ri]), float(x_true[k]))
    key = f"maxerr/tol:{p['method'] or 'default'}"
    if worst is not None:
        return ctx.violation("tension", p, observed=worst[2], expected=worst[3],
                             detail={"ridge": worst[1], "tol": tol, "cond": cond, "E": E, "J": len(rows),
                                     "moved_for_D1": B.moved})
    errs = max(abs(by_ridge[ri] - x_true[k]) for k, ri in enumerate(cols))
    ctx.classes[key] = max(ctx.classes.get(key, 0.0), float(errs / tol))
    # table agrees with forces
    df = call(frame.get_tensions)
    st_col = [float(v) for v in df["stress"].values]
    if len(st_col) != E or max(abs(a - b) for a, b in zip(st_col, vals)) > 1e-12:
        return ctx.violation("table", p, observed=st_col[:6], expected=[float(v) for v in vals][:6])
    # non-triviality
    spread = False
    for j in rows:
        ts = [t.ridges[ri].T for ri in at[j]]
        if len(ts) >= 3 and max(ts) / min(ts) >= 1.2:
            spread = True
    ctx.count("kind:" + p["kind"])
    ctx.count("method:" + str(p["method"]))
    ctx.count("fit:" + p["fit"])
    if p.get("ne"):
        ctx.count("resampled")
    if B.moved:
        ctx.count("rotation-moved-off-D1")
    if spread or p["kind"] in ("hex", "square"):
        ctx.mark_nontrivial(p)
        ctx.sample({"params": p, "E": E, "J": len(rows), "tol": tol, "max_err": float(errs)})
    else:
        ctx.count("trivial:no-tension-spread")


def run_serial(ctx):
    """Thorough tier only: one large tissue (about 450 cells, ~700 inferred interfaces) through the Levenberg-Marquardt
    back-end and through the default one - sizes at which solver budgets and iteration caps start to matter."""
    if ctx.tier != "thorough":
        return
    from ..core import run_case
    for method in ("lsq", None):
        p = {"kind": "voronoi", "mode": "uniform", "n_cells": 450, "seed": 4242 + int(ctx.seed), "jitter": 0.3,
             "n_int": {"mode": "const", "k": 0}, "sub": None, "ne": None, "fit": "dlite", "method": method,
             "allow_negatives": False, "lab": None, "min_ridge_rel": 1e-5,
             "pose": {"rot_mode": "uniform", "angle": 0.37, "shift": [0.0, 0.0], "logscale": 0.0, "reflect": False}}
        ctx.evaluations += 1
        run_case(ctx, check_case, p, "tissue")
        ctx.count("large-tissue(450 cells):" + str(method))


def run(ctx):
    n = ctx.budget(quick=450, thorough=900)
    drive(ctx, params(ctx.tier), check_case, n, label="tissue")


CASES = {"tissue": check_case}


def demo_D3():
    """Smallest class member: a tissue with E = 2J+1 whose balance matrix has rank E-1."""
    import forsys as fs
    for seed in range(200):
        p = {"kind": "voronoi", "mode": "grid", "n_cells": 6, "seed": 1000 + seed, "jitter": 0.3,
             "n_int": {"mode": "const", "k": 0}, "sub": None}
        try:
            t = gen.build_base(p)
        except (ValueError, gen.Degenerate):
            continue
        nint = gen.n_int_func(t, p)
        B = infer.build_static(t, nint, None, None)
        if B is None or len(B.rows) < 2 or B.ambiguous:
            continue
        A = infer.true_matrix(B.t, B.cols, B.rows, B.at)
        sA = infer.svals(A)
        E = len(B.cols)
        if int((sA > 1e-9 * sA[0]).sum()) != E - 1:
            continue
        M, b = infer.augment(A)
        sM = infer.svals(M)
        if len(sM) >= E + 1 and sM[-1] > 1e-9 * sM[0]:
            continue
        frame = make_frame(B.R)
        fsys = fs.ForSys({0: frame})
        call(fsys.build_force_matrix, when=0, angle_limit=np.inf)
        call(fsys.solve_stress, when=0, allow_negatives=False)
        vals = [fsys.forces[0][k] for k in range(E)]
        T = np.array([B.t.ridges[ri].T for ri in B.cols])
        x = T / T.mean()
        by = infer.tensions_by_ridge(frame, B.R, vals)
        err = max(abs(by[ri] - x[k]) for k, ri in enumerate(B.cols))
        if err > 1e-3:
            return True, f"seed {1000 + seed}: E={E}, 2J={2 * len(B.rows)}, max tension error {err:.3g}"
    return False, "no member of the class failed"


def demonstrators():
    return {"D3": demo_D3}
