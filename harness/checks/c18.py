"""C18 - coarse-grained stress tensor: symmetric, linear, isotropic for pure pressure; principal stresses."""
import math

import numpy as np
from hypothesis import strategies as st

from .. import gen, infer
from ..core import call, drive
from ..realise import realise, make_frame
from ..tissue import PRNG

PROP = "C18"
RULE = ("Hypothesis draws a tissue (4..30 cells, arcs or lines, any sampling), assigns drawn pressures and tensions "
        "(zero and negative values included), a grid size 1..12 and an averaging radius 0.5..6 cell radii; the tensors "
        "returned by stress_tensor are checked for symmetry, 'zero iff no cell centre within the radius' (independent "
        "selection), joint linearity in (pressures, tensions), -p*I for uniform pressure and zero tensions, the "
        "area-weighted mean pressure for arbitrary pressures with zero tensions, count = grid^2; the principal "
        "stresses stored on the frame must be the eigen-decomposition of the tensor at each grid centre and be keyed by "
        "that centre (midpoint of the grid's equal bins over the range of the cell centres, computed independently). "
        "Non-trivial "
        "= at least one grid cell with and one without cells in range; distinct = fingerprint of drawn parameters.")
ASSUMPTIONS = [
    "grid cell (row, column) is identified by its bin centre; tensors are read back by enumerating rows and columns",
    "eigenvalues are compared as multisets, eigenvectors up to sign (and only for non-degenerate tensors)",
]


@st.composite
def params(draw, tier):
    p = draw(gen.tissue_params(kinds=("voronoi", "moebius"), lattices=("hex",), max_cells=30, min_cells=4,
                               allow_sub=True, n_int_max=6, n_int_min=1, pose=True, labels=True))
    if p["pose"].get("rot_mode") == "snapchord":
        p["pose"]["rot_mode"] = "zero"
    # small physical units (e.g. metres for micrometre-sized cells) as well as pixel units
    p["pose"]["logscale"] = draw(st.sampled_from([0.0, 0.0, 1.5, -3.0, -5.3, -6.0]))
    p["grid"] = draw(st.sampled_from([1, 2, 3, 5, 5, 7, 10, 11, 12]))
    p["grid_before"] = draw(st.sampled_from([None, 2, 4, 6]))
    p["radius"] = draw(st.sampled_from([0.5, 1.0, 1.0, 1.5, 3.0, 6.0]))
    p["vseed"] = draw(st.integers(0, 2 ** 32 - 1))
    p["pmode"] = draw(st.sampled_from(["random", "random", "uniform", "zero"]))
    p["tmode"] = draw(st.sampled_from(["random", "random", "zero"]))
    return p


def assign(frame, R, pres, tens):
    for cid, cell in frame.cells.items():
        cell.pressure = float(pres[R.cell_of_cid[cid]])
    for be in frame.big_edges.values():
        rs = infer.ridge_of_path(R, be.get_vertices_ids())
        be.tension = float(np.mean([tens[ri] for ri in rs])) if rs else 0.0


def tensors(frame, grid, radius):
    import forsys.stress_tensor as fst
    sig, centers, bins = call(fst.stress_tensor, frame, grid, radius)
    return sig, centers, bins


def read(sig, grid):
    """Tensor of every (row, column), by whatever key the implementation uses for that pair."""
    out = {}
    for r in range(grid):
        for c in range(grid):
            for key in ((r, c), f"{r}{c}", f"{r}_{c}", f"{r},{c}"):
                if key in sig:
                    out[(r, c)] = np.array(sig[key], dtype=float)
                    break
    return out


def check_case(p, ctx):
    t0 = gen.build_base(p)
    t0 = gen.apply_sub(t0, p, connected=True, no_pinch=True)
    nint = gen.n_int_func(t0, p)
    t, _ = gen.apply_pose(t0, p.get("pose"), nint)
    R = realise(t, nint, gen.lab_of(p))
    frame = make_frame(R)
    rng = PRNG(p["vseed"])
    cells = sorted(t.cells)
    nr = len(t.ridges)

    def draw_p(mode):
        if mode == "uniform":
            return {c: 2.5 for c in cells}
        if mode == "zero":
            return {c: 0.0 for c in cells}
        return {c: float(rng.uniform(-1, 3)) for c in cells}

    def draw_t(mode):
        if mode == "zero":
            return {ri: 0.0 for ri in range(nr)}
        return {ri: float(rng.uniform(-0.5, 2)) for ri in range(nr)}

    p1, t1 = draw_p(p["pmode"]), draw_t(p["tmode"])
    p2, t2 = draw_p("random"), draw_t("random")
    grid, radius = p["grid"], p["radius"]
    cmx = np.array([np.mean([v.x for v in c.vertices]) for c in frame.cells.values()])
    cmy = np.array([np.mean([v.y for v in c.vertices]) for c in frame.cells.values()])
    ext0 = max(np.ptp(cmx), np.ptp(cmy))
    if ext0 == 0 or min(np.ptp(cmx), np.ptp(cmy)) <= 1e-6 * ext0:
        ctx.skip("degenerate bounding box of cell centres")
        return
    assign(frame, R, p1, t1)
    sig, centers, bins = tensors(frame, grid, radius)
    if len(sig) != grid * grid:
        return ctx.violation("tensor-count", p, observed=len(sig), expected=grid * grid)
    S1 = read(sig, grid)
    if len(S1) != grid * grid:
        return ctx.violation("tensor-keys", p, observed=len(S1), expected=grid * grid)
    # independent selection of the cells in range
    cm = {cid: (float(np.mean([v.x for v in c.vertices])), float(np.mean([v.y for v in c.vertices])))
          for cid, c in frame.cells.items()}
    area = {cid: abs(float(call(c.get_area))) for cid, c in frame.cells.items()}
    rad = radius * math.sqrt(np.mean(list(area.values())) / math.pi)
    xs = np.array([q[0] for q in cm.values()])
    ys = np.array([q[1] for q in cm.values()])
    # cell centres (nearly) on one axis-parallel line: the grid has no extent in the other direction (bin centres
    # coincide) -- outside what the statement describes
    ext = max(xs.max() - xs.min(), ys.max() - ys.min())
    xb = np.linspace(xs.min(), xs.max(), grid + 1) if xs.max() - xs.min() > 1e-6 * ext else None
    yb = np.linspace(ys.min(), ys.max(), grid + 1) if ys.max() - ys.min() > 1e-6 * ext else None
    if xb is None or yb is None:
        ctx.skip("degenerate bounding box of cell centres")
        return
    n_with = n_without = 0
    sel = {}
    for r in range(grid):
        for c in range(grid):
            cx, cy = (xb[r] + xb[r + 1]) / 2, (yb[c] + yb[c + 1]) / 2
            d2 = {cid: (cx - q[0]) ** 2 + (cy - q[1]) ** 2 for cid, q in cm.items()}
            near = [abs(math.sqrt(v) - rad) < 1e-9 * max(rad, 1) for v in d2.values()]
            inside = [cid for cid, v in d2.items() if v <= rad ** 2]
            sel[(r, c)] = (inside, any(near))
            S = S1[(r, c)]
            if S[0, 1] != S[1, 0]:
                return ctx.violation("not-symmetric", p, observed=S.tolist(), expected="sigma_xy == sigma_yx")
            if any(near):
                continue
            if inside:
                n_with += 1
            else:
                n_without += 1
                if np.any(S != 0):
                    return ctx.violation("nonzero-without-cells", p, observed=S.tolist(), expected="zero matrix",
                                         detail={"row": r, "col": c})
    # ---- T = 0: area-weighted mean pressure times -I (includes the uniform-pressure clause)
    assign(frame, R, p1, {ri: 0.0 for ri in range(nr)})
    S0 = read(tensors(frame, grid, radius)[0], grid)
    for (r, c), (inside, near) in sel.items():
        if near or not inside:
            continue
        A = sum(area[cid] for cid in inside)
        pm = sum(p1[R.cell_of_cid[cid]] * area[cid] for cid in inside) / A
        exp = -pm * np.eye(2)
        if np.max(np.abs(S0[(r, c)] - exp)) > 1e-9 * max(1.0, abs(pm)):
            return ctx.violation("pure-pressure-not-isotropic", p, observed=S0[(r, c)].tolist(), expected=exp.tolist(),
                                 detail={"row": r, "col": c, "cells": len(inside)})
    # ---- linearity
    a, b = 2.0, -3.0
    assign(frame, R, p2, t2)
    S2 = read(tensors(frame, grid, radius)[0], grid)
    pc = {c: a * p1[c] + b * p2[c] for c in cells}
    tc = {ri: a * t1[ri] + b * t2[ri] for ri in range(nr)}
    assign(frame, R, pc, tc)
    Sc = read(tensors(frame, grid, radius)[0], grid)
    for key in S1:
        lin = a * S1[key] + b * S2[key]
        if np.max(np.abs(Sc[key] - lin)) > 1e-8 * max(1.0, np.max(np.abs(lin))):
            return ctx.violation("not-linear", p, observed=Sc[key].tolist(), expected=lin.tolist(),
                                 detail={"row": key[0], "col": key[1]})
    # ---- principal stresses at the grid centres
    assign(frame, R, p1, t1)
    if p.get("grid_before"):
        # an earlier evaluation with another grid and radius must not leave anything behind
        call(frame.calculate_stress_tensor, p["grid_before"], radius * 1.5)
        ctx.count("recomputed-after-another-grid")
    if grid == 5 and radius == 1.0 and p["vseed"] % 2:
        call(frame.calculate_stress_tensor)            # documented defaults: 5 bins, one mean cell radius
        ctx.count("defaults-left-out")
    else:
        call(frame.calculate_stress_tensor, grid, radius)
    if p["vseed"] % 3 == 0:
        # another frame (a scaled copy of the tissue, other grid) is analysed before this frame's results are read
        t_o = t.similarity(scale=1.7, shift=complex(3.0, -2.0) * t.extent())
        R_o = realise(t_o, nint, gen.lab_of(p))
        frame_o = make_frame(R_o)
        assign(frame_o, R_o, p2, t2)
        call(frame_o.calculate_stress_tensor, max(1, grid - 1), radius)
        ctx.count("another-frame-analysed-in-between")
    ps = frame.principal_stress
    xc, yc = frame.stress_tensor[1][0], frame.stress_tensor[1][1]
    Sf = read(frame.stress_tensor[0], grid)
    if len(ps) != grid * grid:
        return ctx.violation("principal-stress-count", p, observed=len(ps), expected=grid * grid)
    for r in range(grid):
        for c in range(grid):
            key = (xc[r], yc[c])
            ex, ey = (xb[r] + xb[r + 1]) / 2, (yb[c] + yb[c + 1]) / 2
            if abs(float(xc[r]) - ex) > 1e-9 * ext or abs(float(yc[c]) - ey) > 1e-9 * ext:
                return ctx.violation("grid-centre", p, observed=[float(xc[r]), float(yc[c])], expected=[ex, ey],
                                     detail={"row": r, "col": c, "grid": grid})
            if key not in ps:
                return ctx.violation("principal-stress-key", p, observed="missing", expected=[float(xc[r]), float(yc[c])])
            w, v = ps[key]
            S = S1[(r, c)]
            if np.max(np.abs(Sf[(r, c)] - S)) > 1e-12 * max(1.0, np.max(np.abs(S))):
                return ctx.violation("stored-tensor-differs", p, observed=Sf[(r, c)].tolist(), expected=S.tolist())
            we = np.linalg.eigvalsh(S)
            if np.max(np.abs(np.sort(np.real(w)) - we)) > 1e-9 * max(1.0, np.max(np.abs(we))):
                return ctx.violation("principal-stress-values", p, observed=np.sort(np.real(w)).tolist(),
                                     expected=we.tolist(), detail={"row": r, "col": c, "grid": grid})
            if abs(we[0] - we[1]) > 1e-6 * max(1.0, np.max(np.abs(we))):
                for k in range(2):
                    res = S @ v[:, k] - w[k] * v[:, k]
                    if np.max(np.abs(res)) > 1e-8 * max(1.0, np.max(np.abs(we))):
                        return ctx.violation("principal-stress-vectors", p, observed=np.real(v[:, k]).tolist(),
                                             expected="eigenvector of the tensor at that grid cell",
                                             detail={"row": r, "col": c})
    ctx.count("grid:%d" % grid)
    if grid >= 11:
        ctx.count("class:grid>=11")
    if n_with >= 1 and n_without >= 1:
        ctx.mark_nontrivial(p)
        ctx.sample({"params": p, "cells": len(cells), "grid_cells_with": n_with, "without": n_without})
    else:
        ctx.count("trivial:all grid cells %s" % ("covered" if n_without == 0 else "empty"))


def run(ctx):
    drive(ctx, params(ctx.tier), check_case, ctx.budget(quick=70, thorough=300), label="tissue")


CASES = {"tissue": check_case}
