"""C05 - reported tensions are the non-negative least-squares optimum (with mean one on consistent systems),
whichever solver path is taken."""
import math

import numpy as np
from hypothesis import strategies as st

from .. import gen, infer, fixtures
from ..core import call, drive, ForsysCrash
from ..nnls_kkt import kkt_report, objective, reference_nnls
from ..realise import realise, make_frame
from ..tissue import PRNG

PROP = "C05"
RULE = ("Hypothesis draws a tissue (Voronoi/Moebius, whole, sub-tissue, or a 'flower' = one cell plus all its "
        "neighbours, which makes the augmented system square so that the inversion path runs), vertex noise 0..30% of "
        "the sample spacing, scale 1e-3..1e3, static or velocity right-hand side (second frame with displaced "
        "junctions), allow_negatives, method in {default, lsq, lsq_linear}; the hook record (matrix, rhs, raw "
        "solution, path) is cross-checked against an independent reconstruction and the reported tensions are "
        "judged by a KKT certificate. Non-trivial = >=4 unknowns and (active non-negativity constraint or "
        "inversion path); distinct = fingerprint of drawn parameters.")
ASSUMPTIONS = [
    "KKT conditions are necessary and sufficient for the convex problem min ||Mx-b||^2, x>=0 (tau = 1e-7*||M||^2*max(1,||x||))",
    "lmfit ('lsq') is judged by objective gap <= 1e-3 * f_ref + 1e-7*||b||^2 against a KKT-certified scipy.nnls "
    "reference; runs started from a strictly positive vector in which a parameter sticks to the bound 0 although the "
    "optimum has it positive are known finding D27 (decided by that predicate, counted)",
    "'lsq_linear' is only judged on consistent (equilibrium, static) systems, as the property states",
    "method='fix_stress' is known finding D5 (always raises) and is excluded from generation",
    "hook record produced by FORSYS_VERIF=1 is cross-checked against fm.matrix and set_velocity_matrix",
]


@st.composite
def params(draw, tier):
    p = draw(gen.tissue_params(kinds=("voronoi", "moebius"), max_cells=18 if tier == "quick" else 30, min_cells=7,
                               allow_sub=False, n_int_max=8, pose=False, labels=True))
    p["shape"] = draw(st.sampled_from(["whole", "sub", "flower", "flower"]))
    p["shape_seed"] = draw(st.integers(0, 2 ** 32 - 1))
    p["noise"] = draw(st.sampled_from([0.0, 0.0, 0.02, 0.1, 0.3]))
    p["noise_seed"] = draw(st.integers(0, 2 ** 32 - 1))
    p["logscale"] = draw(st.sampled_from([0.0, 0.0, -3.0, 3.0, 1.5]))
    p["rhs"] = draw(st.sampled_from(["static", "velocity"]))
    p["vel_amp"] = draw(st.sampled_from([0.01, 0.03]))
    p["method"] = draw(st.sampled_from([None, None, "lsq", "lsq", "lsq_linear"]))
    p["allow_negatives"] = draw(st.sampled_from([False, False, True]))
    p["omit_defaults"] = draw(st.booleans())      # allow_negatives=True is the default: left out of the call
    p["fit"] = draw(st.sampled_from(["dlite", "taubinSVD"]))
    p["x0"] = draw(st.sampled_from(["none", "ones", "random", "with_zero", "warm_start"])) if p["method"] == "lsq" else "none"
    # an opening-angle limit removes interfaces from the system: 'number of interfaces' in the added row is then the
    # number of remaining unknowns (exclusion itself is C16's subject; here only the solved system is judged)
    p["limit"] = draw(st.sampled_from([None, None, None, 0.7, 0.8, 0.9])) if p["x0"] == "none" else None
    if p["method"] == "lsq_linear":
        # the property covers this back-end on consistent systems only
        p["noise"] = 0.0
        p["rhs"] = "static"
        p["fit"] = "taubinSVD"
    return p


def flower(t, seed):
    """One cell whose neighbours are all present, plus those neighbours (square augmented system when clean)."""
    rng = PRNG(seed)
    nb = {c: set() for c in t.cells}
    border = set()
    for r in t.ridges:
        if r.left is not None and r.right is not None:
            nb[r.left].add(r.right)
            nb[r.right].add(r.left)
        else:
            border.update(c for c in (r.left, r.right) if c is not None)
    inner = sorted(c for c in t.cells if c not in border)
    if not inner:
        return None
    c = inner[int(rng.integers(0, len(inner)))]
    return t.subtissue(sorted({c} | nb[c]))


def build_case(p, stats=None):
    t0 = gen.build_base(p)
    if p["shape"] == "flower":
        f = flower(t0, p["shape_seed"])
        if f is not None:
            t0 = f
    elif p["shape"] == "sub":
        q = dict(p, sub={"frac": 0.75, "seed": p["shape_seed"]})
        t0 = gen.apply_sub(t0, q, connected=True, no_pinch=True, stats=stats)
    nint = gen.n_int_func(t0, p)
    t1 = t0.similarity(scale=10.0 ** p["logscale"])
    return t1, nint


def perturb(R, t, sigma, seed):
    """Move every vertex by a normal displacement of sigma * (local sample spacing)."""
    if sigma <= 0:
        return
    rng = PRNG(seed)
    vids = sorted(R.vertices)
    spacing = {}
    for ri in range(len(t.ridges)):
        sp = t.length(ri) / (R.n_int[ri] + 1)
        r = t.ridges[ri]
        toks = [("J", r.a), ("J", r.b)] + [("I", ri, k) for k in range(R.n_int[ri])]
        for tok in toks:
            if tok in R.vid_of_tok:
                v = R.vid_of_tok[tok]
                spacing[v] = min(spacing.get(v, math.inf), sp)
    for v in vids:
        d = rng.normal(size=2) * sigma * spacing.get(v, 0.0)
        R.vertices[v].x += float(d[0])
        R.vertices[v].y += float(d[1])


def solve_once(p, ctx):
    """Build, solve, and return everything the oracle needs (or None if the case is degenerate)."""
    import forsys as fs
    t, nint = build_case(p)
    lab = gen.lab_of(p)
    R0 = realise(t, nint, lab)
    perturb(R0, t, p["noise"], p["noise_seed"])
    f0 = make_frame(R0, 0, time=0.0)
    frames = {0: f0}
    if p["rhs"] == "velocity":
        R1 = realise(t, nint, lab)
        perturb(R1, t, p["noise"], p["noise_seed"])
        rng = PRNG(p["noise_seed"] ^ 0x5bd1e995)
        ext = t.extent()
        for vid, v in R1.vertices.items():
            if R1.tok_of_vid[vid][0] == "J":
                d = rng.normal(size=2) * p["vel_amp"] * ext * 0.2
                v.x += float(d[0])
                v.y += float(d[1])
        frames[1] = make_frame(R1, 1, time=1.0)
    fsys = call(fs.ForSys, frames, cm=False)
    call(fsys.build_force_matrix, when=0, circle_fit_method=p["fit"],
         angle_limit=np.inf if not p.get("limit") else float(p["limit"]) * np.pi)
    fm = fsys.force_matrices[0]
    if fm.matrix.shape[0] == 0 or fm.matrix.shape[1] < 2:
        return None
    kw = {"allow_negatives": p["allow_negatives"]}
    if p["allow_negatives"] and p.get("omit_defaults"):
        kw = {}
    if p["method"]:
        kw["method"] = p["method"]
    if p["rhs"] == "velocity":
        kw["b_matrix"] = "velocity"
    A = np.array(fm.matrix, dtype=float)
    b_top, _ = call(fm.set_velocity_matrix, fsys.mesh, **{k: v for k, v in kw.items() if k == "b_matrix"})
    b_top = np.asarray(b_top, float).flatten()
    # user-supplied initial condition of the Levenberg-Marquardt back-end (a fresh array every time)
    x0mode = p.get("x0", "none")
    E = A.shape[1]
    if x0mode == "ones":
        kw["initial_condition"] = np.ones(E)
    elif x0mode == "random":
        kw["initial_condition"] = PRNG(p["noise_seed"] + 1).uniform(0.2, 3.0, size=E)
    elif x0mode == "with_zero":
        x0 = PRNG(p["noise_seed"] + 2).uniform(0.2, 3.0, size=E)
        x0[:: max(2, E // 3)] = 0.0
        kw["initial_condition"] = x0
    elif x0mode == "warm_start":
        # tensions of a previous default solve (NNLS clamps some to exactly 0) used as the start, as callers do
        call(fsys.solve_stress, when=0, **{k: v for k, v in kw.items() if k not in ("method",)})
        kw["initial_condition"] = np.array([fsys.forces[0][k] for k in range(E)], dtype=float)
        call(fsys.build_force_matrix, when=0, circle_fit_method=p["fit"], angle_limit=np.inf)
        fm = fsys.force_matrices[0]
    call(fsys.solve_stress, when=0, **kw)
    return fsys, fm, A, b_top, f0, t


def judge(p, ctx, fsys, fm, A, b_top, frame, consistent):
    rec = getattr(fm, "_verif_record", None)
    if rec is None:
        raise RuntimeError("hook record missing: FORSYS_VERIF hook not active")
    E = A.shape[1]
    method = p["method"]
    path = rec["path"]
    ctx.count("path:" + path)
    # ---- independent reconstruction of what was solved
    if method == "lsq_linear":
        K = np.zeros((E + 1, E + 1))
        K[:E, :E] = A.T @ A
        K[:E, E] = 1.0
        K[E, :E] = 1.0
        rhs = np.append(A.T @ b_top, E)
        M_exp, b_exp = K, rhs.round(3)
    else:
        M_exp, b_exp = infer.augment(A, b_top)
        b_exp = b_exp.round(3)
    if rec["mprime"].shape != M_exp.shape or np.max(np.abs(rec["mprime"] - M_exp)) > 1e-12 * max(1.0, np.max(np.abs(M_exp))):
        return ctx.violation("system-matrix", p, observed=list(rec["mprime"].shape), expected=list(M_exp.shape))
    if np.max(np.abs(rec["b"] - b_exp)) > 1e-12 * max(1.0, np.max(np.abs(b_exp))):
        k = int(np.argmax(np.abs(rec["b"] - b_exp)))
        return ctx.violation("system-rhs", p, observed=float(rec["b"][k]), expected=float(b_exp[k]), detail={"row": k})
    M, b = rec["mprime"], rec["b"]
    forces = fsys.forces[0]
    if p.get("limit"):
        kept = [k for k in sorted(forces) if forces[k] != -1]
        if len(kept) != E:
            return ctx.violation("reported-vs-unknowns", p, observed=len(kept), expected=E)
        if len(kept) < len(forces):
            ctx.count("angle-limit-removed-interfaces")
        vals = np.array([forces[k] for k in kept], dtype=float)
    else:
        vals = np.array([forces[k] for k in range(E)], dtype=float)
    # (a) forces are the raw solution without the multiplier
    if rec["xres"].shape != (E + 1,) or np.max(np.abs(vals - rec["xres"][:E])) > 0:
        return ctx.violation("forces-vs-raw", p, observed=vals[:6].tolist(), expected=rec["xres"][:6].tolist())
    if not np.all(np.isfinite(vals)):
        return ctx.violation("non-finite", p, observed=vals[:8].tolist(), expected="finite")
    nM = np.linalg.norm(M, 2)
    square = M.shape[0] == M.shape[1]
    if square:
        ctx.count("square-system")
    active = False
    if method == "lsq_linear":
        # consistent as ASSEMBLED: a non-negative candidate with zero residual exists for forsys' default
        # formulation of this very matrix (a mirrored tangent of known finding D1 makes an equilibrium tissue's system
        # inconsistent)
        Md, bd = infer.augment(A, b_top)
        xd = reference_nnls(Md, bd.round(3))
        if not consistent or xd is None or objective(Md, bd.round(3), xd) > 1e-14 * float(bd @ bd):
            ctx.count("lsq_linear-inconsistent-not-judged")
            return "unjudged"
        # ... and without the multiplier, which this back-end does not have: the multiplier of the default formulation
        # can absorb an inconsistency of the junction equations (a non-zero optimal multiplier) that this one cannot
        from scipy.optimize import nnls as _nnls
        M_nm = np.vstack([A, np.ones((1, E))])
        b_nm = np.append(np.asarray(b_top, float).flatten(), E)
        with np.errstate(all="ignore"):
            _, r_nm = _nnls(M_nm, b_nm)
        if r_nm > 1e-7 * float(np.linalg.norm(b_nm)) or abs(float(xd[-1])) > 1e-7:
            ctx.count("lsq_linear-inconsistent-not-judged")
            return "unjudged"
        # the iterative solver (trf, tolerance 1e-10) works on the bordered normal equations: its error grows with
        # their condition number, as in C01 / C03; systems beyond its reach are not judged
        sK = infer.svals(np.asarray(M, float))
        condK = float(sK[-1] / sK[0]) if sK[0] > 0 else 0.0
        if 1e-7 / max(condK, 1e-12) > 3e-4:
            ctx.count("lsq_linear-ill-conditioned-not-judged")
            return "unjudged"
        x = rec["xres"]
        res = np.linalg.norm(M @ x - b)
        if vals.min() < -1e-9 or res > 1e-3 * max(1.0, np.linalg.norm(b)):
            return ctx.violation("lsq_linear", p, observed={"residual": float(res), "min": float(vals.min())},
                                 expected="residual ~ 0 and T >= 0 on a consistent system")
        if abs(vals.mean() - 1) > 1e-3:
            return ctx.violation("mean-one", p, observed=float(vals.mean()), expected=1.0)
        return "ok"
    # multiplier that is best for the reported tensions
    lam = max(0.0, float(np.mean(b[:-1] - A @ vals))) if A.shape[0] else 0.0
    x_rep = np.append(vals, lam)
    if not p["allow_negatives"] or path != "inv":
        if vals.min() < 0:
            return ctx.violation("negative-tension", p, observed=float(vals.min()), expected=">= 0",
                                 detail={"path": path})
    if p["allow_negatives"] and path == "inv" and rec["xres"].min() < 0:
        # negatives explicitly allowed (tension or multiplier): the reported vector must solve the square system;
        # optimality over non-negative candidates is not demanded because the caller waived non-negativity
        res = np.linalg.norm(M @ rec["xres"] - b)
        if res > 1e-7 * max(1.0, nM * np.linalg.norm(rec["xres"])):
            return ctx.violation("inverse-residual", p, observed=float(res), expected=0.0)
        ctx.count("negatives-allowed-and-present")
        return "ok"
    x_ref = reference_nnls(M, b)
    if x_ref is None:
        ctx.skip("reference NNLS could not be KKT-certified (ill-conditioned)")
        return "skip"
    f_ref = objective(M, b, x_ref)
    f_rep = objective(M, b, x_rep)
    bb = float(b @ b)
    with np.errstate(all="ignore"):
        x_ls = np.linalg.lstsq(M, b, rcond=None)[0]
    active = bool(x_ls.min() < -1e-9)
    if method == "lsq":
        gap = f_rep - f_ref
        raw = rec["xres"]
        stuck = bool(np.any((raw <= 1e-8) & (x_ref > 1e-6)))
        start_positive = p.get("x0", "none") in ("none", "ones", "random")
        if path == "lsq" and stuck and start_positive:
            # known finding D27: lmfit's bound transform has zero derivative on the bound, a parameter that reaches
            # 0 during the iteration never leaves it (started from a strictly positive vector)
            ctx.known("D27")
            ctx.exclude_known("D27")
            ctx.count("lsq-stuck-on-bound(D27)")
            return "known"
        if gap > 1e-3 * f_ref + 1e-7 * bb:
            return ctx.violation("lsq-not-optimal", p, observed=f_rep, expected=f_ref,
                                 detail={"gap": gap, "path": path, "min_T": float(vals.min()), "stuck_on_bound": stuck})
    else:
        ok, info = kkt_report(M, b, x_rep)
        if not ok:
            # uniqueness-free fallback: same objective value as the certified reference
            if f_rep - f_ref > 1e-9 * max(f_ref, 1e-6 * bb):
                return ctx.violation("not-nnls-optimal", p, observed=f_rep, expected=f_ref,
                                     detail=dict(info, path=path, multiplier_raw=float(rec["xres"][-1]),
                                                 min_T=float(vals.min())))
    s = infer.svals(M)
    if len(s) == M.shape[1] and s[-1] > 1e-8 * s[0]:
        # unique minimiser
        tol = (1e-6 if method != "lsq" else 3e-2) * (s[0] / s[-1]) * max(1.0, np.max(np.abs(x_ref)))
        tol = min(tol, 0.5) if method == "lsq" else tol
        d = float(np.max(np.abs(vals - x_ref[:E])))
        if d > tol and method != "lsq":
            return ctx.violation("differs-from-unique-minimiser", p, observed=vals[:6].tolist(),
                                 expected=x_ref[:6].tolist(), detail={"max_diff": d, "tol": tol, "path": path})
    # consistent system (as assembled): a non-negative candidate with zero residual exists
    if f_ref <= 1e-14 * bb:
        ctx.count("consistent-as-assembled")
        if abs(vals.mean() - 1) > (1e-5 if method != "lsq" else 1e-3):
            return ctx.violation("mean-one", p, observed=float(vals.mean()), expected=1.0)
    if E >= 4 and (active or path == "inv"):
        ctx.mark_nontrivial(p)
        ctx.sample({"params": p, "E": E, "rows": int(A.shape[0]), "path": path, "active_constraint": active,
                    "min_T": float(vals.min())})
    if active:
        ctx.count("active-constraint")
    return "ok"


def check_case(p, ctx):
    from ..core import ForsysCrash
    try:
        out = solve_once(p, ctx)
    except ForsysCrash as cr:
        if cr.kind == "DifferentTissueException":
            # documented rejection of a frame pair whose bounding box changes too much (tracking is C12's subject; the
            # second frame here only exists to give the system a velocity right-hand side)
            ctx.skip("frame pair declared too different by the tracking (documented rejection)")
            return
        raise
    if out is None:
        ctx.count("trivial:no-rows")
        return
    fsys, fm, A, b_top, frame, t = out
    consistent = p["noise"] == 0.0 and p["rhs"] == "static"
    ctx.count("method:" + str(p["method"]))
    if p["method"] == "lsq":
        ctx.count("lsq-x0:" + p.get("x0", "none"))
    ctx.count("rhs:" + p["rhs"])
    ctx.count("shape:" + p["shape"])
    judge(p, ctx, fsys, fm, A, b_top, frame, consistent)


# ------------------------------------------------------------------------------- aimed at a narrow range
@st.composite
def params_aim(draw, tier):
    p = draw(params(tier))
    p["shape"] = "flower"
    p["method"] = None
    p["rhs"] = "static"
    p["x0"] = "none"
    p["limit"] = None
    p["noise_seed"] = draw(st.integers(0, 2 ** 32 - 1))
    p["target"] = draw(st.sampled_from([2e-4, 3e-4, 4.5e-4, 6e-4, 2e-3]))      # size of the negative entry aimed at
    return p


def check_aim(p, ctx):
    """Square systems (inversion path) whose exact solution has a negative tension of a chosen small size: the noise
    amplitude of a fixed noise pattern is bisected until the smallest exact tension lies in (-target, -target/4)."""
    from ..core import ForsysCrash

    def smallest(s):
        q = dict(p, noise=s, allow_negatives=True, omit_defaults=False)
        out = solve_once(q, ctx)
        if out is None:
            return None
        rec = getattr(out[1], "_verif_record", None)
        if rec is None or rec["path"] != "inv":
            return None
        return float(np.min(rec["xres"][:-1]))

    try:
        lo, hi = 0.0, 0.3
        f_hi = smallest(hi)
        if f_hi is None or f_hi >= 0 or (smallest(0.0) or -1) <= 0:
            ctx.count("aim:no-sign-change(not square or never negative)")
            return
        s_found = None
        for _ in range(40):
            mid = 0.5 * (lo + hi)
            f = smallest(mid)
            if f is None:
                break
            if -p["target"] < f < -0.25 * p["target"]:
                s_found = mid
                break
            if f >= -0.25 * p["target"]:
                lo = mid
            else:
                hi = mid
        if s_found is None:
            ctx.count("aim:range-not-reached")
            return
    except ForsysCrash:
        ctx.count("aim:crash-during-search(reported by the random part)")
        return
    q = dict(p, noise=s_found, allow_negatives=False, omit_defaults=False)
    out = solve_once(q, ctx)
    if out is None:
        return
    fsys, fm, A, b_top, frame, t = out
    ctx.count("aim:small-negative-exact-tension:%g" % p["target"])
    if judge(q, ctx, fsys, fm, A, b_top, frame, False) == "ok":
        ctx.mark_nontrivial(q)


# ------------------------------------------------------------------------------------------- shipped fixtures
def check_fixture(p, ctx):
    import forsys as fs
    name = p["fixture"]
    if name == "furrow":
        frames = fixtures.furrow_frames(p.get("frames", 3))
    else:
        frames = {0: fixtures.skeleton_frame(name, ne=6)}
    fsys = call(fs.ForSys, frames, cm=False)
    for when in p.get("whens", [0]):
        call(fsys.build_force_matrix, when=when)
        fm = fsys.force_matrices[when]
        kw = {"allow_negatives": p.get("allow_negatives", False)}
        if p.get("method"):
            kw["method"] = p["method"]
        if p.get("rhs") == "velocity":
            kw["b_matrix"] = "velocity"
        A = np.array(fm.matrix, dtype=float)
        b_top, _ = call(fm.set_velocity_matrix, fsys.mesh, **{k: v for k, v in kw.items() if k == "b_matrix"})
        call(fsys.solve_stress, when=when, **kw)
        q = dict(p, when=when)
        q.setdefault("allow_negatives", False)
        q.setdefault("method", None)
        fs2 = type("X", (), {"forces": {0: fsys.forces[when]}})()
        ctx.evaluations += 1
        ctx.count("fixture:" + name)
        judge(q, ctx, fs2, fm, A, np.asarray(b_top, float).flatten(), frames[when], False)


def run_serial(ctx):
    fx = [
        {"fixture": "furrow", "frames": 3, "whens": [0, 2], "rhs": "velocity"},
        {"fixture": "furrow", "frames": 2, "whens": [0], "rhs": "static", "method": "lsq"},
        {"fixture": "test_nonzero.tif"},
        {"fixture": "experimental/exp_1.tif", "method": "lsq"},
        {"fixture": "experimental/exp_1.tif"},
    ]
    if ctx.tier == "thorough":
        fx.append({"fixture": "furrow", "frames": 8, "whens": list(range(8)), "rhs": "velocity"})
        fx.append({"fixture": "furrow", "frames": 8, "whens": [0, 7], "rhs": "velocity", "method": "lsq"})
    from ..core import run_case
    for p in fx:
        run_case(ctx, check_fixture, p, "fixture")


def run(ctx):
    n = ctx.budget(quick=500, thorough=800)
    drive(ctx, params(ctx.tier), check_case, n, label="tissue")
    drive(ctx, params_aim(ctx.tier), check_aim, ctx.budget(quick=60, thorough=100), label="aim", seed_offset=3)


CASES = {"tissue": check_case, "fixture": check_fixture, "aim": check_aim}


def demo_D5():
    import forsys as fs
    p = {"kind": "voronoi", "mode": "grid", "n_cells": 12, "seed": 5, "jitter": 0.3, "n_int": {"mode": "const", "k": 3}}
    t = gen.build_base(p)
    R = realise(t, gen.n_int_func(t, p))
    fsys = fs.ForSys({0: make_frame(R)})
    fsys.build_force_matrix(when=0)
    try:
        call(fsys.solve_stress, when=0, method="fix_stress")
    except ForsysCrash as c:
        return True, f"method='fix_stress' raises {c.kind}"
    return False, "method='fix_stress' returned"


def demonstrators():
    return {"D5": demo_D5}


def demo_D27():
    """Replay of the first instance found by the thorough tier (C16 generator): angle-limited velocity system."""
    import json as _json
    import os as _os
    from ..core import VERIF, Ctx
    fn = _os.path.join(VERIF, "regress", "known", "d27_lsq_stuck_on_bound.json")
    with open(fn) as f:
        rec = _json.load(f)
    from . import c16
    ctx = Ctx("C16", "quick", 0)
    ctx.replaying = True
    c16.check_case(rec["params"], ctx)
    hit = ctx.known_hits.get("D27", 0) > 0
    return hit, "angle-limited velocity system: lmfit ends with a tension on the bound, objective above the optimum"


_old_demonstrators = demonstrators


def demonstrators():
    d = _old_demonstrators()
    d["D27"] = demo_D27
    return d
