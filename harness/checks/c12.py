"""C12 - vertex tracking between frames is injective and follows small motions."""
import math

import numpy as np
from hypothesis import strategies as st

from .. import gen, series
from .. import core
from ..core import call, drive
from ..tissue import PRNG

PROP = "C12"
RULE = ("Hypothesis draws a tissue (4..25 cells, whole or sub-tissue), 2..6 frames, per step a displacement field "
        "(i.i.d. random / affine / drift+vortex) scaled to a drawn fraction 0.05..0.95 of the admissible bound "
        "min(spacing/2, 0.08*extent) (a second class goes up to 4x outside the bound), independent renumbering of "
        "every frame, optional partial initial_guess of true pairs, cm on/off; the mapping built by TimeSeries is "
        "compared with the ground-truth successor map. Non-trivial = labels differ between frames and >= 60% of the "
        "junctions move by > 10% of the bound in some step; distinct = fingerprint of drawn parameters.")
ASSUMPTIONS = [
    "junction = interface end point = tissue vertex with >= 3 mesh edges; spacing = smallest distance between two "
    "junctions in either frame; extent = larger side of the bounding box of the junctions of both frames (as the code)",
    "with cm=True the bounds are evaluated on coordinates centred by the rounded mean of all vertices, as TimeSeries does",
    "conditional clauses are only asserted when the drawn fraction is <= 0.95 of the bound in every step",
]


@st.composite
def params(draw, tier):
    p = draw(gen.tissue_params(kinds=("voronoi", "moebius"), max_cells=25, min_cells=4, allow_sub=True, n_int_max=8,
                               pose=True, labels=False))
    p["pose"]["rot_mode"] = "uniform" if p["pose"].get("rot_mode") in ("snap", "snapchord") else p["pose"]["rot_mode"]
    p["pose"].setdefault("angle", 0.0)
    p["n_frames"] = draw(st.integers(2, 6))
    p["steps"] = [{"kind": draw(st.sampled_from(["random", "affine", "flow", "dilate", "local"])),
                   "frac": draw(st.floats(0.05, 0.95)), "seed": draw(st.integers(0, 2 ** 32 - 1))}
                  for _ in range(p["n_frames"] - 1)]
    if draw(st.integers(0, 5)) == 0 and p["kind"] in ("voronoi", "moebius"):
        # a small tissue that grows for several frames and then drifts by nearly the admissible 8 % of its (larger)
        # extent: search radii have to follow the current pair
        p["n_cells"] = min(p["n_cells"], draw(st.integers(4, 9)))
        p["sub"] = None
        p["n_frames"] = 5
        p["steps"] = [{"kind": "dilate", "frac": 0.9, "seed": draw(st.integers(0, 2 ** 32 - 1))} for _ in range(3)] + \
                     [{"kind": draw(st.sampled_from(["flow", "random"])), "frac": 0.93, "seed": draw(st.integers(0, 2 ** 32 - 1))}]
    p["outside"] = draw(st.sampled_from([False, False, False, True]))
    if p["outside"]:
        for s in p["steps"]:
            s["frac"] = draw(st.floats(0.5, 4.0))
    p["cm"] = draw(st.booleans())
    p["guess_frac"] = draw(st.sampled_from([0.0, 0.0, 0.3, 1.0]))
    # a user pairing that contradicts proximity: one junction is hand-paired with the true successor of another one
    p["guess_conflict"] = draw(st.sampled_from([False, False, True]))
    p["lab_seeds"] = [draw(st.integers(0, 2 ** 32 - 1)) for _ in range(p["n_frames"])]
    p["relabel"] = draw(st.sampled_from([True, True, True, False]))
    # (frames are keyed 0..n-1: ForSys itself - times_to_use - assumes that, so other keys are outside the input domain)
    p["key0"] = 0
    # with no user pairings at all, one and the same {frame: {}} object is given to a first solver object over an
    # independently numbered copy of the series and then to the one under test
    p["shared_empty_guess"] = draw(st.booleans())
    return p


def frame_centre(R):
    """Centre TimeSeries subtracts with cm=True: mean of all vertices rounded to 3 decimals.  Must be evaluated
    BEFORE the TimeSeries is built (it moves the vertices in place)."""
    xs = np.array([v.x for v in R.vertices.values()])
    ys = np.array([v.y for v in R.vertices.values()])
    return complex(round(float(xs.mean()), 3), round(float(ys.mean()), 3))


def centred(t, c, on):
    """Junction positions as TimeSeries sees them (after the optional centring)."""
    if not on:
        return dict(t.J)
    return {j: z - c for j, z in t.J.items()}


def build_series(p):
    t0 = gen.build_base(p)
    t0 = gen.apply_sub(t0, p, connected=True, no_pinch=True)
    nint = gen.n_int_func(t0, p)
    t0, _ = gen.apply_pose(t0, p.get("pose"), nint)
    js = series.junction_set(t0, nint)
    if len(js) < 2:
        raise gen.Degenerate("fewer than two junctions")
    tissues = [t0]
    info = []
    for s in p["steps"]:
        cur = tissues[-1]
        rng = PRNG(s["seed"])
        sp = series.min_spacing(cur, js)
        mc = series.maxcoord(cur, cur, js)
        bound = min(sp / 2, 0.08 * mc)
        field = series.displacement_field(s["kind"], cur, js, rng, 1.0)
        # iterate once so that the bound also holds with spacing / extent measured on the moved frame
        amp = s["frac"] * bound
        for _ in range(3):
            Jn = {j: cur.J[j] + field[j] * amp for j in cur.J}
            nxt = series.moved(cur, Jn)
            sp2 = min(sp, series.min_spacing(nxt, js))
            mc2 = series.maxcoord(cur, nxt, js)
            b2 = min(sp2 / 2, 0.08 * mc2)
            if s["frac"] * b2 >= amp * (1 - 1e-12):
                break
            amp = s["frac"] * b2
        Jn = {j: cur.J[j] + field[j] * amp for j in cur.J}
        nxt = series.moved(cur, Jn)
        tissues.append(nxt)
        info.append({"amp": amp})
    times = [float(k) for k in range(len(tissues))]
    S = series.realise_series(tissues, nint, times, p["lab_seeds"], relabel=p["relabel"])
    return S, js, nint


def within_bounds(S, js, k, cm, centres):
    """Exact evaluation of the statement's premises between frames k and k+1 (on what TimeSeries sees)."""
    A = centred(S.T[k], centres[k], cm)
    B = centred(S.T[k + 1], centres[k + 1], cm)
    za = np.array([A[j] for j in js])
    zb = np.array([B[j] for j in js])
    disp = np.abs(zb - za)

    def spacing(z):
        d = np.abs(z[:, None] - z[None, :])
        d[np.arange(len(z)), np.arange(len(z))] = np.inf
        return float(d.min())

    allz = np.concatenate([za, zb])
    mc = float(max(allz.real.max() - allz.real.min(), allz.imag.max() - allz.imag.min()))
    sp = min(spacing(za), spacing(zb))
    shape = math.hypot((zb.real.max() - zb.real.min()) - (za.real.max() - za.real.min()),
                       (zb.imag.max() - zb.imag.min()) - (za.imag.max() - za.imag.min()))
    bound = min(sp / 2, 0.08 * mc)
    ok = bool(disp.max() < 0.97 * bound and shape < 0.097 * mc)
    return ok, float(disp.max() / bound), bound, disp


def check_case(p, ctx):
    import forsys as fs
    S, js, nint = build_series(p)
    n = len(S.frames)
    # user-supplied pairings (true pairs for a drawn subset; every frame key present, as callers do)
    guess = {}
    conflict = {}
    rng = PRNG(p["lab_seeds"][0] ^ 0x9e3779b9)
    for k in range(n):
        g = {}
        if k < n - 1 and p["guess_frac"] > 0:
            for j in js:
                if rng.uniform() < p["guess_frac"]:
                    g[S.vid(k, j)] = S.vid(k + 1, j)
        if k < n - 1 and p.get("guess_conflict") and len(js) >= 2:
            ia = int(rng.integers(0, len(js)))
            # nearest other junction
            za = S.T[k].J[js[ia]]
            ib = min((i for i in range(len(js)) if i != ia), key=lambda i: abs(S.T[k].J[js[i]] - za))
            g = {a_: b_ for a_, b_ in g.items() if a_ not in (S.vid(k, js[ia]), S.vid(k, js[ib]))
                 and b_ != S.vid(k + 1, js[ib])}
            g[S.vid(k, js[ia])] = S.vid(k + 1, js[ib])
            conflict[k] = {js[ia], js[ib]}
        guess[k] = g
    centres = {k: frame_centre(S.R[k]) for k in range(n)}
    kw_cm = {} if (not p["cm"] and p["lab_seeds"][0] % 2) else {"cm": p["cm"]}     # cm=False is the default
    k0 = p.get("key0", 0)
    frames_in = {k + k0: S.frames[k] for k in range(n)}
    guess_in = {k + k0: dict(v) for k, v in guess.items()}
    if p.get("shared_empty_guess") and not any(guess.values()):
        q2 = dict(p, lab_seeds=[sd ^ 0x5A5A5A5A for sd in p["lab_seeds"]], relabel=True)
        S2, _, _ = build_series(q2)
        call(fs.ForSys, {k + k0: S2.frames[k] for k in range(n)}, initial_guess=guess_in, **kw_cm)
        ctx.count("empty-guess-object-shared-with-an-earlier-solver")
    fsys = call(fs.ForSys, frames_in, initial_guess=guess_in, **kw_cm)
    if k0:
        ctx.count("frames-keyed-from-3")
    mesh = core.mesh_of(fsys)
    moved_frac = []
    conditional = True
    for k in range(n - 1):
        m = mesh.mapping.get(k + k0)
        ok, ratio, bound, disp = within_bounds(S, js, k, p["cm"], centres)
        if m is None:
            if ok:
                return ctx.violation("frames-declared-too-different", p, observed="mapping is None",
                                     expected="a mapping", detail={"k": k, "ratio": ratio})
            ctx.count("different-tissue(outside bounds)")
            conditional = False
            continue
        ends0 = {S.vid(k, j) for j in js}
        ends1 = {S.vid(k + 1, j) for j in js}
        # ---- unconditional clauses
        bad_keys = [v for v in m if v not in ends0]
        bad_vals = [v for v in m.values() if v is not None and v not in ends1]
        if bad_keys or bad_vals:
            return ctx.violation("not-interface-end-points", p, observed={"keys": bad_keys[:5], "values": bad_vals[:5]},
                                 expected="interface end points of frames k / k+1", detail={"k": k})
        vals = [v for v in m.values() if v is not None]
        if len(vals) != len(set(vals)):
            dup = sorted(v for v in set(vals) if vals.count(v) > 1)
            return ctx.violation("not-injective", p, observed=dup[:5], expected="pairwise distinct targets",
                                 detail={"k": k})
        for a, b in guess[k].items():
            if m.get(a) != b:
                return ctx.violation("user-pair-not-honoured", p, observed=m.get(a), expected=b, detail={"k": k})
        # ---- conditional clause (not for steps with a user pairing that contradicts the true correspondence)
        if k in conflict:
            ctx.count("steps-with-conflicting-user-pairing")
            conditional = False
        elif ok:
            for j in js:
                a, b = S.vid(k, j), S.vid(k + 1, j)
                if m.get(a) != b:
                    return ctx.violation("wrong-successor", p, observed=m.get(a), expected=b,
                                         detail={"k": k, "junction": j, "ratio": ratio, "cm": p["cm"]})
            moved_frac.append(float((disp > 0.1 * bound).mean()))
            if ratio > 0.5:
                ctx.count("step:displacement>half-bound")
            ctx.count("steps-inside-bounds")
        else:
            conditional = False
            ctx.count("steps-outside-bounds")
    if conditional:
        # forward then backward returns the start
        for t0 in range(n - 1):
            for t1 in range(t0 + 1, n):
                for j in js[: max(3, len(js))]:
                    a = S.vid(t0, j)
                    f = call(mesh.get_point_id_by_map, a, t0 + k0, t1 + k0)
                    if f != S.vid(t1, j):
                        return ctx.violation("forward-chain", p, observed=f, expected=S.vid(t1, j),
                                             detail={"t0": t0, "t1": t1})
                    bck = call(mesh.get_point_id_by_map, f, t1 + k0, t0 + k0)
                    if bck != a:
                        return ctx.violation("forward-backward", p, observed=bck, expected=a,
                                             detail={"t0": t0, "t1": t1})
        ctx.count("round-trips-checked")
    ctx.count("cm:" + str(p["cm"]))
    if p["guess_frac"] > 0:
        ctx.count("with-initial-guess")
    labels_differ = p["relabel"]
    if conditional and labels_differ and moved_frac and max(moved_frac) >= 0.6:
        ctx.mark_nontrivial(p)
        ctx.sample({"params": p, "junctions": len(js), "frames": n})
    elif not conditional:
        ctx.count("outside-bounds-case(unconditional clauses only)")


def run(ctx):
    drive(ctx, params(ctx.tier), check_case, ctx.budget(quick=400, thorough=1000), label="series")


CASES = {"series": check_case}
