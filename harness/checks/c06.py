"""C06 - inference is invariant under similarity transforms and changes of units."""
import cmath
import math

import numpy as np
from hypothesis import strategies as st

from .. import gen, infer, series
from .. import core
from ..core import call, drive
from ..nnls_kkt import reference_nnls
from ..realise import make_frame
from ..tissue import PRNG
from . import c04

PROP = "C06"
RULE = ("Hypothesis draws an arc/line tissue (equilibrium, or with junctions displaced so that it is not in force "
        "balance), and two independent poses A and B (scale 1e-3..1e3, shift up to 1e4 sizes, reflection, rotation "
        "uniform or snapped near an axis); forsys runs on both and tensions / pressures are compared per physical "
        "interface / cell, coefficient pairs must be related by the rotation/reflection between the poses. Dynamic "
        "part: a 2-frame series with adimensional velocities, re-run with all time stamps or all lengths multiplied by "
        "a factor 1e-3..1e3. Non-trivial = transform not the identity, >= 3 used junctions, tolerance <= 0.02; "
        "distinct = fingerprint of drawn parameters.")
ASSUMPTIONS = [
    "tolerance = 3 x (deviation of a certified NNLS solution of each pose's assembled system from that of the analytic "
    "system) + 1e-6; instances above 0.02 are skipped and counted",
    "non-equilibrium tissues are only compared across translation and scaling: the default formulation adds the "
    "multiplier to x- and y-equations alike, which is not rotation/reflection invariant off equilibrium (known "
    "finding D24); D1 avoided by construction in both poses",
    "pressures are compared with identical (analytic) tensions assigned in both poses, and with inferred tensions on "
    "equilibrium tissues",
]


@st.composite
def params(draw, tier):
    p = draw(gen.tissue_params(kinds=("voronoi", "moebius", "moebius"), max_cells=24, min_cells=10, allow_sub=False,
                               n_int_max=12, n_int_min=0, pose=False, labels=True))
    p["poseA"] = draw(gen.pose_params())
    p["poseB"] = draw(gen.pose_params())
    # pose A may have a first polyline segment that is exactly axis-parallel (pixel-like data); pose B not
    if p["poseB"].get("rot_mode") == "snapchord":
        p["poseB"]["rot_mode"] = "zero"
    if draw(st.integers(0, 3)) == 0:
        p["poseA"]["rot_mode"] = "snapchord"
        p["poseA"]["snap_end"] = draw(st.integers(0, 10 ** 6))
        p["poseA"]["snap_k"] = draw(st.integers(0, 3))
    # make sure the transform between the poses is usually far from the identity
    p["poseB"]["logscale"] = draw(st.sampled_from([-3.0, -1.5, -0.5, 0.0, 0.7, 2.0, 3.0]))
    if draw(st.integers(0, 9)) < 6:
        p["poseB"]["rot_mode"] = "uniform"
        p["poseB"]["angle"] = draw(st.integers(1, 2 ** 12 - 1)) * (2 * math.pi / 2 ** 12)
    p["noise"] = draw(st.sampled_from([0.0, 0.0, 0.0, 0.05, 0.2]))
    p["nseed"] = draw(st.integers(0, 2 ** 32 - 1))
    p["fit"] = draw(st.sampled_from(["dlite", "taubinSVD"]))
    return p


def run_pose(t0, nint, lab, pose, fit, stats):
    import forsys as fs
    B = infer.build_static(t0, nint, lab, pose, fit=fit, stats=stats)
    if B is None or B == "rejected":
        return None
    frame = make_frame(B.R)
    fsys = call(fs.ForSys, {0: frame})
    call(fsys.build_force_matrix, when=0, circle_fit_method=fit, angle_limit=np.inf)
    B.frame, B.fsys = frame, fsys
    return B


def nnls_tensions(A):
    M, b = infer.augment(A)
    x = reference_nnls(M, b)
    return None if x is None else x[:-1]


def check_static(p, ctx):
    t0 = gen.build_base(p)
    nint = gen.n_int_func(t0, p)
    rng = PRNG(p["nseed"])
    if p["noise"] > 0:
        sp = series.min_spacing(t0, sorted(t0.J))
        t0 = series.moved(t0, {j: z + complex(*rng.normal(size=2)) * p["noise"] * sp * 0.3 for j, z in t0.J.items()})
    poseB = dict(p["poseB"])
    if p["noise"] > 0:
        # D24: off equilibrium only translation and scaling are compared
        for k in ("reflect", "rot_mode", "angle", "snap_end", "snap_k", "snap_delta"):
            if k in p["poseA"]:
                poseB[k] = p["poseA"][k]
            else:
                poseB.pop(k, None)
        ctx.exclude_known("D24")
    lab = gen.lab_of(p)
    stats = {}
    A_ = run_pose(t0, nint, lab, p["poseA"], p["fit"], stats)
    B_ = run_pose(t0, nint, lab, poseB, p["fit"], stats)
    if A_ is None or B_ is None:
        ctx.exclude_known("D1")
        return
    if p["noise"] > 0 and abs((A_.angle - B_.angle + math.pi) % (2 * math.pi) - math.pi) > 1e-9:
        ctx.skip("off-equilibrium pair whose rotations had to differ to avoid D1")
        return
    cols, rows, at = A_.cols, A_.rows, A_.at
    if len(rows) < 3 or A_.ambiguous:
        ctx.count("trivial:<3 junction rows")
        return
    try:
        MA = infer.observed_matrix(A_.fsys.force_matrices[0], A_.R, cols, rows)
        MB = infer.observed_matrix(B_.fsys.force_matrices[0], B_.R, cols, rows)
    except infer.StructureMismatch as e:
        return ctx.violation("structure", p, observed=str(e), expected="same rows/columns in both poses")
    # ---- coefficient pairs rotate / reflect with the tissue
    TA = infer.true_matrix(A_.t, cols, rows, at)
    TB = infer.true_matrix(B_.t, cols, rows, at)
    EA = infer.eps_matrix(A_.t, nint, cols, rows, at, p["fit"])
    reflA, reflB = bool(p["poseA"].get("reflect")), bool(poseB.get("reflect"))
    for r_i in range(len(rows)):
        for k in range(len(cols)):
            if TA[2 * r_i, k] == 0 and TA[2 * r_i + 1, k] == 0:
                continue
            za = complex(MA[2 * r_i, k], MA[2 * r_i + 1, k])
            zb = complex(MB[2 * r_i, k], MB[2 * r_i + 1, k])
            # map pose A's pair into pose B: undo A's rotation / reflection, apply B's
            base = za * cmath.exp(-1j * A_.angle)
            if reflA:
                base = base.conjugate()
            pred = (base.conjugate() if reflB else base) * cmath.exp(1j * B_.angle)
            if abs(pred - zb) > 2.5 * EA[2 * r_i, k] + 1e-12:
                return ctx.violation("coefficients-do-not-transform", p, observed=[zb.real, zb.imag],
                                     expected=[pred.real, pred.imag], detail={"junction": rows[r_i], "ridge": cols[k]})
    # ---- tensions (only where the optimum is unique: full column rank of the analytic augmented system; the
    # rank-deficient case is known finding D3 / an under-determined tissue)
    if not infer.full_column_rank(infer.augment(TA)[0], 1e-8):
        ctx.skip("augmented system rank deficient (optimum not unique)")
        return
    refA, refB = nnls_tensions(TA), nnls_tensions(TB)
    obsA, obsB = nnls_tensions(MA), nnls_tensions(MB)
    if refA is None or refB is None or obsA is None or obsB is None:
        ctx.skip("reference NNLS not certifiable")
        return
    if np.max(np.abs(refA - refB)) > 1e-6 * max(1.0, np.max(np.abs(refA))):
        if p["noise"] == 0:
            ctx.skip("analytic optimum itself differs between the poses (under-determined system)")
            return
        return_note = True
    tol = 3.0 * (np.max(np.abs(obsA - refA)) + np.max(np.abs(obsB - refB))) + 1e-6
    if tol > 0.02:
        ctx.skip("conditioning: tolerance > 0.02")
        return
    res = {}
    for name, X in (("A", A_), ("B", B_)):
        call(X.fsys.solve_stress, when=0, allow_negatives=False)
        vals = [X.fsys.forces[0][k] for k in range(len(cols))]
        res[name] = infer.tensions_by_ridge(X.frame, X.R, vals)
    worst = max(cols, key=lambda ri: abs(res["A"][ri] - res["B"][ri]))
    if abs(res["A"][worst] - res["B"][worst]) > tol:
        return ctx.violation("tension-not-invariant", p, observed=float(res["B"][worst]), expected=float(res["A"][worst]),
                             detail={"ridge": worst, "tol": tol, "noise": p["noise"],
                                     "angles": [A_.angle, B_.angle], "reflect": [reflA, reflB]})
    # ---- pressures: inferred tensions (equilibrium) and identical assigned tensions (always)
    for mode in (["assigned", "inferred"] if p["noise"] == 0 else ["assigned"]):
        pr = {}
        for name, X in (("A", A_), ("B", B_)):
            if mode == "assigned":
                for k, be in enumerate(X.frame.internal_big_edges):
                    rs = infer.ridge_of_path(X.R, be.get_vertices_ids())
                    be.tension = float(X.t.ridges[next(iter(rs))].T)
            elif any(n_ == 0 for n_ in nint.values()):
                continue
            try:
                call(X.fsys.build_pressure_matrix, when=0)
                if not infer.interface_graph_connected(X.fsys.pressure_matrices[0].lhs_matrix):
                    # the pressure solution is only specified when the internal interfaces link all cells (C04)
                    ctx.count("pressure-graph-disconnected(not compared)")
                    pr = None
                    break
                call(X.fsys.solve_pressure, when=0, method="lagrange_pressure")
            except Exception as e:  # ForsysCrash
                if "expecting 2" in str(e):
                    pr = None
                    break
                raise
            pr[name] = {X.R.cell_of_cid[c]: float(cell.pressure) for c, cell in X.frame.cells.items()}
        if not pr or len(pr) < 2:
            continue
        scale = max(max(abs(v) for v in pr["A"].values()), 1e-300)
        floor = sum(max(c04.turning_floor(A_.t, nint, ri), c04.turning_floor(B_.t, nint, ri)) * A_.t.ridges[ri].T
                    for ri in cols)
        tolp = (1e-6 * scale + 50 * floor) if mode == "assigned" else (30 * tol * scale + 50 * floor + 1e-6 * scale)
        wc = max(pr["A"], key=lambda c: abs(pr["A"][c] - pr["B"][c]))
        if abs(pr["A"][wc] - pr["B"][wc]) > tolp:
            return ctx.violation("pressure-not-invariant:" + mode, p, observed=pr["B"][wc], expected=pr["A"][wc],
                                 detail={"cell": wc, "tol": tolp})
        ctx.count("pressures-compared:" + mode)
    ctx.count("noise:" + str(p["noise"]))
    dphi = (B_.angle - A_.angle) % (math.pi / 2)
    ctx.count("rotation-mod-90deg-bin:%d" % int(dphi / (math.pi / 2) * 6))
    ctx.count("logscale-ratio-bin:%d" % int(round(poseB.get("logscale", 0) - p["poseA"].get("logscale", 0))))
    ctx.mark_nontrivial(p)
    ctx.sample({"params": p, "tol": tol, "max_diff": float(abs(res["A"][worst] - res["B"][worst]))})


# ------------------------------------------------------------------------------------------------ dynamic part
@st.composite
def dyn_params(draw, tier):
    p = draw(gen.tissue_params(kinds=("voronoi", "moebius"), max_cells=20, min_cells=9, allow_sub=False,
                               n_int_max=10, pose=False, labels=False))
    p["tseed"] = draw(st.integers(0, 2 ** 32 - 1))
    p["unit"] = draw(st.sampled_from(["time", "length"]))
    p["factor"] = draw(st.sampled_from([1e-3, 0.01, 0.5, 3.0, 60.0, 1e3]))
    p["vnorm"] = draw(st.sampled_from([1, 1, 0.5]))
    p["lab_seeds"] = [draw(st.integers(0, 2 ** 32 - 1)) for _ in range(2)]
    p["frac"] = draw(st.floats(0.1, 0.3))
    # units of the unchanged series itself: pixel-like (1, 1), or SI-like (lengths x 1e-5, times x 1e3: junction
    # speeds of order 1e-8, which the factor then takes below 1e-9)
    p["base_units"] = draw(st.sampled_from([[0.0, 1.0], [0.0, 1.0], [-5.0, 1e3], [-3.0, 60.0]]))
    return p


def check_dynamic(p, ctx):
    import forsys as fs
    t0 = gen.build_base(p)
    nint = gen.n_int_func(t0, p)
    rng = PRNG(p["tseed"])
    cols, rows, at, amb = infer.structure(t0, nint)
    if len(rows) < 3 or amb:
        ctx.count("trivial:<3 junction rows")
        return
    used_ends = [(ri, j) for j in rows for ri in at[j]]
    chords = {(ri, j): t0.chord_dir(ri, j, nint[ri]) for (ri, j) in used_ends}
    phi = infer.free_angle(t0, used_ends, chords, rng.uniform(), pad=2e-3)
    if phi is None:
        ctx.exclude_known("D1")
        return
    tk = t0.similarity(angle=phi)
    T = np.exp(rng.uniform(0, math.log(3.0), size=len(cols)))
    T /= T.mean()
    cidx = {ri: k for k, ri in enumerate(cols)}
    F = {j: sum(T[cidx[ri]] * tk.tangent(ri, j) for ri in at[j]) for j in rows}
    fmax = max(abs(v) for v in F.values())
    js = series.junction_set(tk, nint)
    bound = min(series.min_spacing(tk, js) / 2, 0.08 * series.maxcoord(tk, tk, js))
    dt = p["frac"] * bound / fmax
    J = dict(tk.J)
    for j in rows:
        J[j] = tk.J[j] + dt * F[j]
    t1 = series.moved(tk, J)
    out = []
    for variant in ("base", "changed"):
        f = p["factor"] if variant == "changed" else 1.0
        if p["unit"] == "time" or variant == "base":
            tissues = [tk, t1] if (variant == "base" or p["unit"] == "time") else None
            times = [0.0, dt * (f if p["unit"] == "time" else 1.0)]
        if variant == "changed" and p["unit"] == "length":
            tissues = [tk.similarity(scale=f), t1.similarity(scale=f)]
            times = [0.0, dt]
        bl, bt = p.get("base_units", [0.0, 1.0])
        if bl != 0.0 or bt != 1.0:
            tissues = [tt.similarity(scale=10.0 ** bl) for tt in tissues]
            times = [x * bt for x in times]
        S = series.realise_series(tissues, nint, times, p["lab_seeds"], relabel=True)
        fsys = call(fs.ForSys, S.frames, cm=False)
        mp = core.mesh_of(fsys).mapping.get(0)
        if mp is None or any(mp.get(S.vid(0, j)) != S.vid(1, j) for j in js):
            ctx.skip("tracking did not follow ground truth (C12)")
            return
        call(fsys.build_force_matrix, when=0, angle_limit=np.inf)
        call(fsys.solve_stress, when=0, b_matrix="velocity", adimensional_velocity=True,
             velocity_normalization=p["vnorm"], allow_negatives=False)
        vals = [fsys.forces[0][k] for k in range(len(cols))]
        out.append(infer.tensions_by_ridge(S.frames[0], S.R[0], vals))
    A = infer.true_matrix(tk, cols, rows, at)
    b_top = np.zeros(2 * len(rows))
    mean_speed = float(np.mean([abs(F[j]) for j in rows]))
    for r_i, j in enumerate(rows):
        b_top[2 * r_i] = F[j].real / mean_speed * p["vnorm"]
        b_top[2 * r_i + 1] = F[j].imag / mean_speed * p["vnorm"]
    M, b = infer.augment(A, b_top)
    sM = infer.svals(M)
    if not infer.full_column_rank(M, 1e-6):
        ctx.skip("rank deficient")
        return
    with np.errstate(all="ignore"):
        P = np.linalg.pinv(M)
    # the normalised velocity term is identical in exact arithmetic; after rounding to 3 decimals at most a single
    # entry sitting on a rounding boundary can differ by one unit in the third decimal
    Pt = np.abs(P[:len(cols), :2 * len(rows)])
    flip = 3e-3 * float(Pt.max())
    tol = 1e-7 * float(sM[0] / sM[-1]) + 1e-9
    worst = max(cols, key=lambda ri: abs(out[0][ri] - out[1][ri]))
    diff = abs(out[0][worst] - out[1][worst])
    if diff > tol:
        if diff <= flip:
            ctx.count("dynamic:difference-within-one-rounding-flip")
        else:
            return ctx.violation("dynamic-tension-not-invariant:" + p["unit"], p, observed=float(out[1][worst]),
                                 expected=float(out[0][worst]), detail={"ridge": worst, "tol": tol, "flip": flip,
                                                                       "factor": p["factor"]})
    ctx.count("dynamic:" + p["unit"])
    if p.get("base_units", [0.0, 1.0])[0] != 0.0:
        ctx.count("dynamic:SI-like-base-units")
    ctx.mark_nontrivial(p)
    ctx.sample({"params": p, "tol": tol, "max_diff": float(diff)}, cap=10)


def run(ctx):
    drive(ctx, params(ctx.tier), check_static, ctx.budget(quick=150, thorough=600), label="static")
    drive(ctx, dyn_params(ctx.tier), check_dynamic, ctx.budget(quick=60, thorough=300), label="dynamic", seed_offset=1)


CASES = {"static": check_static, "dynamic": check_dynamic}


def demo_D24():
    """Non-equilibrium tissue: the exact minimiser of forsys' formulation changes when the tissue is rotated."""
    import forsys as fs
    p = {"kind": "voronoi", "mode": "grid", "n_cells": 20, "seed": 4, "jitter": 0.3, "n_int": {"mode": "const", "k": 0}}
    t = gen.build_base(p)
    nint = gen.n_int_func(t, p)
    rng = PRNG(1)
    sp = series.min_spacing(t, sorted(t.J))
    t = series.moved(t, {j: z + complex(*rng.normal(size=2)) * 0.1 * sp for j, z in t.J.items()})
    res = []
    for ang in (0.0, 1.0):
        B = infer.build_static(t.similarity(angle=ang), nint, None, None, avoid_d1=False)
        frame = make_frame(B.R)
        fsys = fs.ForSys({0: frame})
        call(fsys.build_force_matrix, when=0, angle_limit=np.inf)
        call(fsys.solve_stress, when=0, allow_negatives=False)
        res.append(infer.tensions_by_ridge(frame, B.R, [fsys.forces[0][k] for k in range(len(B.cols))]))
    d = max(abs(res[0][ri] - res[1][ri]) for ri in res[0])
    return d > 1e-3, f"same non-equilibrium tissue rotated by 1 rad: tensions differ by up to {d:.3g}"


def demonstrators():
    return {"D24": demo_D24}
