"""C10 - results are a pure function of frame data and the last call's arguments (history independence)."""
import math

import numpy as np
import hypothesis
from hypothesis import strategies as st
from hypothesis.stateful import RuleBasedStateMachine, rule, initialize, precondition, run_state_machine_as_test

from .. import gen, infer, series
from ..core import call, ForsysCrash, hyp_settings, run_case
from ..tissue import PRNG

PROP = "C10"
RULE = ("Hypothesis rule-based state machine over one ForSys object built on a generated 2..4-frame series (6..16 "
        "cells, tracking inside C12's bounds, frames renumbered independently): rules build_force_matrix(t, angle "
        "limit default/inf/0.6pi..pi, fit, ignore_four), solve_stress(t, method default/lsq/lsq_linear, b_matrix "
        "none/velocity, allow_negatives, adimensional, fresh initial condition), build_pressure_matrix(t), "
        "solve_pressure(t), get_system_velocity_per_frame(), Frame.filter_edges, a second ForSys object constructed over the same used frames; "
        "documented defaults are left out of the calls as drawn; up to 18 steps in any frame order. After every solve a "
        "FRESH object on a fresh realisation performs only the effective last build and that solve and must report "
        "the same tensions / table / pressures; structural invariants are checked after every step. Non-trivial = "
        "history revisits a frame with different options or solves >= 2 frames in non-increasing order; distinct = "
        "fingerprint of (series parameters, step list).")
ASSUMPTIONS = [
    "reference model: results are a pure function of the frame data and of the arguments of the last build and solve "
    "for that frame (pressures: of the tensions present when build_pressure_matrix was last called)",
    "same floats expected (NNLS, lmfit and scipy are deterministic); comparison tolerance 1e-9 absolute",
    "method='fix_stress' is known finding D5 and is not generated",
]

CTX = None


# ----------------------------------------------------------------------------------------------- series
@st.composite
def series_params(draw):
    p = draw(gen.tissue_params(kinds=("voronoi", "brick", "moebius", "voronoi", "brick", "moebius", "voronoi"),
                               max_cells=16, min_cells=6, allow_sub=True, n_int_max=6, n_int_min=1, pose=False,
                               labels=False))
    if p.get("sub"):
        p["sub"]["frac"] = max(p["sub"]["frac"], 0.6)          # ragged outline, cells hanging from one outer side
    if p["kind"] == "brick":
        p["nx"], p["ny"] = max(3, min(p["nx"], 4)), max(2, min(p["ny"], 3))
        p["sub"] = None
        p["jitter_seed"] = draw(st.integers(0, 2 ** 32 - 1))
    p["n_frames"] = draw(st.integers(2, 4))
    p["steps"] = [{"kind": "random", "frac": draw(st.sampled_from([0.1, 0.3, 0.5])),
                   "seed": draw(st.integers(0, 2 ** 32 - 1))} for _ in range(p["n_frames"] - 1)]
    p["lab_seeds"] = [draw(st.integers(0, 2 ** 32 - 1)) for _ in range(p["n_frames"])]
    p["relabel"] = True
    sh = draw(st.sampled_from([0.0, 0.0, 15000.0, -21000.0]))
    p["pose"] = {"rot_mode": "uniform", "angle": draw(st.integers(0, 63)) * 0.1, "shift": [sh, 0.3 * sh],
                 "logscale": draw(st.sampled_from([0.0, 0.0, 2.0])), "reflect": False}
    if p["kind"] == "brick":
        # first frame with exactly straight-through T-junctions (opening exactly pi): the default limit flags them,
        # an unlimited build does not; later frames are displaced and generic
        p["pose"] = {"rot_mode": "zero", "angle": 0.0, "shift": [0.0, 0.0], "logscale": 0.0, "reflect": False}
    return p


def build_forsys(p):
    import forsys as fs
    from . import c12
    S, js, nint = c12.build_series(p)
    fsys = call(fs.ForSys, S.frames, cm=False)
    return S, fsys


BUILD = st.fixed_dictionaries({
    "op": st.just("build"), "t": st.integers(0, 3),
    "limit": st.sampled_from(["default", "default", "inf", 0.6, 0.7, 0.8, 0.9]),
    "fit": st.sampled_from(["dlite", "taubinSVD"]), "ignore_four": st.booleans(),
    # arguments left out of the call when they have their documented default (bit 0: metadata, bit 1: circle fit)
    "omit": st.integers(0, 3)})
SOLVE = st.fixed_dictionaries({
    "op": st.just("solve"), "t": st.integers(0, 3),
    "method": st.sampled_from([None, None, "lsq", "lsq_linear"]),
    "b_matrix": st.sampled_from([None, "velocity"]), "allow_negatives": st.booleans(),
    "adim": st.booleans(), "x0": st.sampled_from(["none", "ones", "random"]),
    "omit": st.booleans()})          # allow_negatives=True (the default) left out of the call
PBUILD = st.fixed_dictionaries({"op": st.just("pbuild"), "t": st.integers(0, 3)})
PSOLVE = st.fixed_dictionaries({"op": st.just("psolve"), "t": st.integers(0, 3)})
SYSVEL = st.fixed_dictionaries({"op": st.just("sysvel")})
FILTER = st.fixed_dictionaries({"op": st.just("filter"), "t": st.integers(0, 3)})


def build_kwargs(step, explicit=False):
    """Arguments of build_force_matrix. The object under test leaves defaults out as drawn (step['omit']); the fresh
    reference object spells every documented default out (explicit=True: angle_limit=pi, circle_fit_method='dlite',
    its own metadata dict), so defaults that drift during a history are seen."""
    omit = 0 if explicit else int(step.get("omit", 0))
    kw = dict(when=step["t"])
    if not (omit & 1 and not step["ignore_four"]):
        kw["metadata"] = {"ignore_four": step["ignore_four"]}
    if not (omit & 2 and step["fit"] == "dlite"):
        kw["circle_fit_method"] = step["fit"]
    if step["limit"] == "inf":
        kw["angle_limit"] = np.inf
    elif step["limit"] != "default":
        kw["angle_limit"] = float(step["limit"]) * math.pi
    elif explicit:
        kw["angle_limit"] = np.pi
    return kw


def solve_kwargs(step, n_internal, explicit=False):
    kw = {"allow_negatives": step["allow_negatives"]}
    if step["allow_negatives"] and step.get("omit") and not explicit:
        kw = {}
    if step["method"]:
        kw["method"] = step["method"]
    if step["b_matrix"]:
        kw["b_matrix"] = step["b_matrix"]
        if step["adim"]:
            kw["adimensional_velocity"] = True
    if step["method"] == "lsq" and step["x0"] != "none":
        kw["initial_condition"] = (np.ones(n_internal) if step["x0"] == "ones"
                                   else PRNG(n_internal * 7 + 1).uniform(0.3, 2.0, size=n_internal))
    return kw


SYSVEL_BUILD = {"op": "build", "limit": "inf", "fit": "dlite", "ignore_four": False}


def observe(fsys, t):
    """What a user can read for frame t."""
    frame = fsys.frames[t]
    f = fsys.forces.get(t)
    forces = None if f is None else [float(f[k]) for k in sorted(f)]
    df = call(frame.get_tensions, with_border=True)
    table = [(int(a), float(b)) for a, b in zip(df["id"].values, df["stress"].values)]
    pres = [None if c.pressure is None else float(c.pressure) for c in frame.cells.values()]
    return {"forces": forces, "table": table, "pressures": pres}


def first_diff(a, b, tol=1e-9):
    for key in ("forces", "table", "pressures"):
        x, y = a[key], b[key]
        if (x is None) != (y is None):
            return key, x, y
        if x is None:
            continue
        if len(x) != len(y):
            return key + ":length", len(x), len(y)
        for i, (u, v) in enumerate(zip(x, y)):
            uu = u if isinstance(u, tuple) else (u,)
            vv = v if isinstance(v, tuple) else (v,)
            for p_, q_ in zip(uu, vv):
                if (p_ is None) != (q_ is None):
                    return f"{key}[{i}]", u, v
                if p_ is not None and not (abs(p_ - q_) <= tol * max(1.0, abs(q_)) or (math.isnan(p_) and math.isnan(q_))):
                    return f"{key}[{i}]", u, v
    return None


class History:
    """Applies steps to the object under test, keeps the reference model, checks invariants."""

    def __init__(self, p, ctx):
        self.p = p
        self.ctx = ctx
        self.S, self.fsys = build_forsys(p)
        self.n = len(self.S.frames)
        self.steps = []
        self.last_build = {}
        self.last_solve = {}
        self.solve_basis = {}
        self.build_filt = {}
        # how many times each frame's vertices were smoothed by Frame.filter_edges("SG") (frame DATA changed; the
        # Savitzky-Golay smoothing is not idempotent, so the count matters)
        self.filtered = {}
        self.ctor_filt = {}         # smoothing counts at the time the solver object under test was constructed
        self.pbasis = {}            # t -> (build step, solve step) in force when build_pressure_matrix(t) was called
        self.psolved = {}
        self.solve_order = []
        self.revisit = False
        self.dead = False
        self.crashed = False

    def params(self):
        return {"series": self.p, "steps": list(self.steps)}

    def fail(self, sub, observed=None, expected=None, detail=None):
        self.ctx.violation(sub, self.params(), observed=observed, expected=expected, detail=detail, kind="history")
        self.dead = True

    def n_internal(self, t):
        return len(self.fsys.frames[t].internal_big_edges)

    # ---- reference
    def fresh_result(self, t, want_pressure):
        b, s, filt_build, filt_solve = (self.pbasis[t] if want_pressure else self.solve_basis[t])
        # the reference runs in the numpy error state forsys sets at import; whatever state the object under test
        # has left behind is restored afterwards (a process-wide leak is part of the history being tested)
        with np.errstate(all="raise"):
            # the solver object links the frames (tracking) when it is constructed: smoothing that happened before
            # the object under test was (re)constructed happens before the reference object is constructed too
            import forsys as fs
            from . import c12
            S2, _, _ = c12.build_series(self.p)
            fb, fs_, fc = dict(filt_build), dict(filt_solve), dict(self.ctor_filt)
            for k in sorted(fc):
                for _ in range(fc[k]):
                    call(S2.frames[k].filter_edges, "SG")
            f2 = call(fs.ForSys, S2.frames, cm=False)
            for k in sorted(fb):
                for _ in range(fb[k] - fc.get(k, 0)):
                    call(f2.frames[k].filter_edges, "SG")
            call(f2.build_force_matrix, **build_kwargs(dict(b, t=t), explicit=True))
            for k in sorted(fs_):
                for _ in range(fs_[k] - fb.get(k, 0)):
                    call(f2.frames[k].filter_edges, "SG")
            call(f2.solve_stress, when=t, **solve_kwargs(s, len(f2.frames[t].internal_big_edges), explicit=True))
            if want_pressure:
                call(f2.build_pressure_matrix, when=t)
                call(f2.solve_pressure, when=t, method="lagrange_pressure")
            return observe(f2, t)

    # ---- steps
    def applicable(self, step):
        op = step["op"]
        if op in ("sysvel", "newsolver"):
            return True
        t = step["t"]
        if t >= self.n:
            return False
        if op == "solve":
            if t not in self.last_build:
                return False
            if step["b_matrix"] == "velocity" and self.n < 2:
                return False
            return self.fsys.force_matrices[t].matrix.shape[0] > 0 and self.fsys.force_matrices[t].matrix.shape[1] > 1
        if op == "pbuild":
            return t in self.last_solve and all(len(be.own_cells) == 2 for be in self.fsys.frames[t].internal_big_edges)
        if op == "psolve":
            # the pressure solution is only specified for a connected interface graph (C04)
            return t in self.pbasis and infer.interface_graph_connected(self.fsys.pressure_matrices[t].lhs_matrix)
        return True

    def normalise(self, step):
        """Map the drawn frame index onto a frame for which the operation is possible (keeps histories dense)."""
        step = dict(step)
        op = step["op"]
        if op in ("sysvel", "newsolver"):
            return step
        pools = {"build": list(range(self.n)), "solve": sorted(self.last_build), "pbuild": sorted(self.last_solve),
                 "psolve": sorted(self.pbasis), "filter": list(range(self.n))}
        pool = pools[op]
        if not pool:
            return None
        step["t"] = pool[step["t"] % len(pool)]
        return step

    def apply(self, step, raw=True):
        if self.dead:
            return False
        if raw:
            step = self.normalise(step)
        if step is None or not self.applicable(step):
            return False
        self.steps.append(step)
        op = step["op"]
        before = {k: (None if v is None else dict(v)) for k, v in self.fsys.forces.items()}
        try:
            if op == "build":
                prev = self.last_build.get(step["t"])
                call(self.fsys.build_force_matrix, **build_kwargs(step))
                self.last_build[step["t"]] = {k: step[k] for k in ("op", "limit", "fit", "ignore_four")}
                if step.get("omit"):
                    self.ctx.count("builds-with-defaults-left-out")
                self.build_filt[step["t"]] = frozenset(self.filtered.items())
            elif op == "sysvel":
                call(self.fsys.get_system_velocity_per_frame)
                for t in range(self.n):
                    self.last_build[t] = dict(SYSVEL_BUILD)
                    self.build_filt[t] = frozenset(self.filtered.items())
            elif op == "filter":
                call(self.fsys.frames[step["t"]].filter_edges, "SG")
                self.filtered[step["t"]] = self.filtered.get(step["t"], 0) + 1
            elif op == "newsolver":
                # a second solver object over the very same (already used) Frame objects, as when a notebook cell is
                # run again: whatever the first object left on the frames must not change what the new one reports
                import forsys as fs
                self.fsys = call(fs.ForSys, self.S.frames, cm=False)
                self.ctor_filt = dict(self.filtered)
                self.last_build, self.last_solve, self.solve_basis = {}, {}, {}
                self.build_filt, self.pbasis, self.psolved = {}, {}, {}
                self.solve_order = []
                self.ctx.count("second-solver-object-on-used-frames")
                return True
            elif op == "solve":
                t = step["t"]
                if t in self.last_solve and (self.last_solve[t] != {k: v for k, v in step.items() if k != "t"}):
                    self.revisit = True
                if self.solve_order and t <= self.solve_order[-1]:
                    self.revisit = True
                self.solve_order.append(t)
                call(self.fsys.solve_stress, when=t, **solve_kwargs(step, self.n_internal(t)))
                self.last_solve[t] = {k: v for k, v in step.items() if k != "t"}
                self.solve_basis[t] = (dict(self.last_build[t]), dict(self.last_solve[t]), self.build_filt[t],
                                       frozenset(self.filtered.items()))
            elif op == "pbuild":
                t = step["t"]
                call(self.fsys.build_pressure_matrix, when=t)
                # the tensions present now are those of the last solve, made with the build in force at that time
                self.pbasis[t] = self.solve_basis[t]
            elif op == "psolve":
                t = step["t"]
                call(self.fsys.solve_pressure, when=t, method="lagrange_pressure")
                self.psolved[t] = True
        except ForsysCrash as c:
            self.crashed = True
            # would a fresh object crash on this very call too?  then the history is not to blame (input property)
            try:
                if op == "solve":
                    self.last_solve[step["t"]] = {k: v for k, v in step.items() if k != "t"}
                    self.solve_basis[step["t"]] = (dict(self.last_build[step["t"]]), dict(self.last_solve[step["t"]]),
                                                   self.build_filt[step["t"]], frozenset(self.filtered.items()))
                    self.fresh_result(step["t"], False)
                elif op == "psolve":
                    self.fresh_result(step["t"], True)
                else:
                    raise c
            except ForsysCrash:
                self.ctx.count("step-crashes-on-a-fresh-object-too(not history dependent)")
                self.ctx.count(f"fresh-crash:{c.kind}@{c.where}:{step.get('method')}:{step.get('b_matrix')}")
                self.dead = True
                return True
            self.fail(f"crash-only-after-history:{c.kind}@{c.where}", observed=str(c), expected="same as a fresh object")
            return True
        # ---- a build without angle limit keeps every internal interface (whatever was built before, anywhere)
        if op in ("build", "sysvel"):
            for t_ in ([step["t"]] if op == "build" else range(self.n)):
                if self.last_build[t_].get("limit") == "inf":
                    fm_ = self.fsys.force_matrices[t_]
                    n_int = len(self.fsys.frames[t_].internal_big_edges)
                    if len(fm_.big_edges_to_use) != n_int:
                        return self.fail("unlimited-build-dropped-interfaces", observed=len(fm_.big_edges_to_use),
                                         expected=n_int, detail={"frame": t_}) or True
        # ---- other frames' stores untouched
        if op in ("solve", "psolve", "pbuild", "build"):
            for k, v in before.items():
                if k != step.get("t") and (self.fsys.forces.get(k) is None) != (v is None):
                    return self.fail("other-frame-store-changed", observed=k, expected="untouched") or True
        if not isinstance(self.fsys.forces, dict) or sorted(self.fsys.forces) != list(range(self.n)):
            return self.fail("forces-store-shape", observed=str(type(self.fsys.forces)), expected="dict keyed by frame") or True
        if not isinstance(self.fsys.pressures, dict) or sorted(self.fsys.pressures) != list(range(self.n)):
            return self.fail("pressures-store-shape", observed=str(type(self.fsys.pressures).__name__),
                             expected="dict keyed by frame") or True
        # ---- structural invariants on every frame that has results
        for t in self.last_solve:
            if not self.invariants(t):
                return True
        # ---- reference model
        if op == "solve":
            t = step["t"]
            ref = self.fresh_result(t, False)
            got = observe(self.fsys, t)
            got_cmp = dict(got, pressures=None)
            ref_cmp = dict(ref, pressures=None)
            d = first_diff(got_cmp, ref_cmp)
            if d:
                # the reference must itself be reproducible before the object under test is blamed (lmfit on an
                # ill-conditioned system amplifies last-bit differences of the linear algebra library)
                ref2 = self.fresh_result(t, False)
                if first_diff(dict(ref2, pressures=None), ref_cmp):
                    self.ctx.skip("reference result not reproducible (two fresh objects disagree)")
                    self.dead = True
                    return True
                if step.get("method") == "lsq" and d[0].split("[")[0] in ("forces", "table"):
                    # Levenberg-Marquardt on a system whose minimiser is not unique (lattices): which minimiser it
                    # reaches depends on the last bits of the assembled matrix (summation order), so only histories
                    # with a unique optimum are held to the reference values
                    rec = getattr(self.fsys.force_matrices[t], "_verif_record", None)
                    if rec is not None and not infer.full_column_rank(np.asarray(rec["mprime"], float), 1e-8):
                        self.ctx.skip("lsq on a rank-deficient system: minimiser not unique, values not compared")
                        self.dead = True
                        return True
                return self.fail("differs-from-fresh-object:" + d[0].split("[")[0], observed=d[1], expected=d[2],
                                 detail={"where": d[0], "frame": t}) or True
            self.ctx.count("fresh-comparisons")
        if op == "psolve":
            t = step["t"]
            ref = self.fresh_result(t, True)
            got = observe(self.fsys, t)
            d = first_diff({"forces": None, "table": None, "pressures": got["pressures"]},
                           {"forces": None, "table": None, "pressures": ref["pressures"]})
            if d:
                return self.fail("pressures-differ-from-fresh-object", observed=d[1], expected=d[2],
                                 detail={"where": d[0], "frame": t}) or True
            store = self.fsys.pressures.get(t) if isinstance(self.fsys.pressures, dict) else None
            if store is None or [float(x) for x in store] != [float(x) for x in got["pressures"]]:
                return self.fail("pressure-store", observed=str(store)[:80], expected="frame t's pressures under key t") or True
            # the pressure table a user reads lists every cell once, in cell order, with that cell's own pressure
            frame = self.fsys.frames[t]
            pdf = call(frame.get_pressures)
            tab = [(int(a), float(b)) for a, b in zip(pdf["id"].values, pdf["pressure"].values)]
            exp = [(int(cid), float(c.pressure)) for cid, c in frame.cells.items()]
            if tab != exp:
                return self.fail("pressure-table", observed=tab[:5], expected=exp[:5], detail={"frame": t}) or True
            self.ctx.count("fresh-pressure-comparisons")
        return True

    def invariants(self, t):
        frame = self.fsys.frames[t]
        f = self.fsys.forces.get(t)
        if f is None:
            self.fail("forces-missing", observed=None, expected=f"results of frame {t} under key {t}")
            return False
        ib = frame.internal_big_edges
        if sorted(f) != list(range(len(ib))):
            self.fail("forces-keys", observed=sorted(f)[:8], expected=f"0..{len(ib) - 1}")
            return False
        for i, be in enumerate(ib):
            v = float(f[i])
            if v == -1:
                continue
            if abs(be.tension - v) > 1e-12 * max(1.0, abs(v)):
                self.fail("interface-tension-mismatch", observed=float(be.tension), expected=v,
                          detail={"frame": t, "i": i})
                return False
            for eid in be.edges:
                if abs(frame.edges[eid].tension - v) > 1e-12 * max(1.0, abs(v)):
                    self.fail("mesh-edge-tension-mismatch", observed=float(frame.edges[eid].tension), expected=v,
                              detail={"frame": t, "i": i})
                    return False
        for be in frame.big_edges.values():
            if be.external and be.tension != 0:
                self.fail("external-interface-nonzero", observed=float(be.tension), expected=0.0, detail={"frame": t})
                return False
        df = call(frame.get_tensions)
        if [int(x) for x in df["id"].values] != [be.big_edge_id for be in ib]:
            self.fail("table-ids", observed=[int(x) for x in df["id"].values][:8],
                      expected=[be.big_edge_id for be in ib][:8])
            return False
        if getattr(frame, "forces", None) is not f:
            self.fail("frame-forces", observed="frame.forces is not the stored result", expected="same object")
            return False
        return True


# ----------------------------------------------------------------------------------------------- state machine
class ForSysMachine(RuleBasedStateMachine):
    def __init__(self):
        super().__init__()
        self.h = None

    @initialize(p=series_params())
    def start(self, p):
        np.seterr(all="raise")
        try:
            self.h = History(p, CTX)
        except gen.Degenerate:
            self.h = None
            CTX.skip("generator: degenerate geometry rejected")
        CTX.evaluations += 1
        if self.h is not None and self.h.p.get("kind") == "brick":
            # series whose first frame has exactly straight-through junctions start with: unlimited build and solve,
            # then the default limit (which flags them) and solve again - before anything else can end the history
            b0 = {"op": "build", "t": 0, "fit": "dlite", "ignore_four": False, "omit": 0}
            s0 = {"op": "solve", "method": None, "b_matrix": None, "allow_negatives": True, "adim": False, "x0": "none",
                  "omit": False}
            for lim in ("inf", "default"):
                self._do(dict(b0, limit=lim))
                if self.h.dead:
                    break
                # the unlimited solve through the Levenberg-Marquardt back-end (started at ones, it leaves every
                # interface with a tension of order one; NNLS would put many of them to exactly zero)
                self._do(dict(s0, t=0, method="lsq" if lim == "inf" else None))
                if self.h.dead:
                    break
            CTX.count("opening:unlimited-then-default-on-exact-T-junctions")

    def _do(self, step):
        if self.h is None or self.h.dead:
            return
        try:
            self.h.apply(step)
        except ForsysCrash as c:
            self.h.fail(f"crash-in-reference-or-invariant:{c.kind}@{c.where}", observed=str(c), expected="no exception")

    @rule(step=BUILD)
    def build(self, step):
        self._do(step)

    @rule(step=SOLVE)
    def solve(self, step):
        self._do(step)

    @rule(b=BUILD, s=SOLVE)
    def build_then_solve(self, b, s):
        """A build immediately followed by a solve of the same frame (what callers do), keeps histories dense."""
        if self.h is None or self.h.dead:
            return
        b = dict(b, t=b["t"] % self.h.n)
        self._do(b)
        if not self.h.dead:
            pool = sorted(self.h.last_build)
            self._do(dict(s, t=pool.index(b["t"]) if b["t"] in pool else 0))

    @rule(s=SOLVE, b=BUILD)
    def resolve_with_other_backend(self, s, b):
        """Solve a built frame with the Levenberg-Marquardt back-end, rebuild it with the other circle fit and solve
        again with the default back-end (the 'earlier solve with other options' pattern of the statement)."""
        if self.h is None or self.h.dead or not self.h.last_build:
            return
        pool = sorted(self.h.last_build)
        k = s["t"] % len(pool)
        self._do(dict(s, t=k, method="lsq"))
        if self.h.dead:
            return
        t = pool[k]
        self._do(dict(b, t=t, fit="taubinSVD"))
        if not self.h.dead:
            self._do(dict(s, t=sorted(self.h.last_build).index(t), method=None))

    @rule(step=FILTER)
    def filter_edges(self, step):
        """Frame.filter_edges('SG') moves the vertices of a frame in place: the frame DATA changes."""
        self._do(step)

    @rule(s=SOLVE)
    def refilter_rebuild_same_options(self, s):
        """Smooth a frame that has been built already, build it again with exactly the same options and solve: the
        second build must see the moved vertices."""
        if self.h is None or self.h.dead or not self.h.last_build:
            return
        pool = sorted(self.h.last_build)
        t = pool[s["t"] % len(pool)]
        b = dict(self.h.last_build[t], t=t)
        if b.get("op") != "build" or "fit" not in b:
            return
        CTX.count("rule:refilter_rebuild_same_options")
        self._do({"op": "filter", "t": t})
        if not self.h.dead:
            self._do(b)
        if not self.h.dead:
            self._do(dict(s, t=sorted(self.h.last_build).index(t)))

    @rule(s=SOLVE)
    def resolve_then_pressure(self, s):
        """Solve a frame that already has pressures again with other options (no rebuild of the force matrix) and redo
        the pressure step: the new pressures must follow the new tensions."""
        if self.h is None or self.h.dead or not self.h.pbasis:
            return
        t = sorted(self.h.pbasis)[s["t"] % len(self.h.pbasis)]
        CTX.count("rule:resolve_then_pressure")
        # make sure the new solve really differs from the one the pressures were computed from
        prev = self.h.last_solve.get(t, {})
        if prev.get("b_matrix") == s["b_matrix"] and prev.get("method") == s["method"]:
            s = dict(s, b_matrix=("velocity" if prev.get("b_matrix") is None else None))
        self._do(dict(s, t=sorted(self.h.last_build).index(t)))
        if self.h.dead:
            return
        self._do({"op": "pbuild", "t": sorted(self.h.last_solve).index(t)})
        if not self.h.dead and t in self.h.pbasis:
            self._do({"op": "psolve", "t": sorted(self.h.pbasis).index(t)})

    @rule(step=PBUILD)
    def pressure_round(self, step):
        if self.h is None or self.h.dead:
            return
        n0 = len(self.h.steps)
        self._do(step)
        if not self.h.dead and len(self.h.steps) > n0:
            t = self.h.steps[-1]["t"]
            pool = sorted(self.h.pbasis)
            self._do({"op": "psolve", "t": pool.index(t)})

    @rule(step=PBUILD)
    def pbuild(self, step):
        self._do(step)

    @rule(b=BUILD, s=SOLVE)
    def unlimited_then_default_limit(self, b, s):
        """The same frame built and solved without angle limit and then with the documented default one (which flags
        exactly straight-through junctions): what the second solve reports must not remember the first."""
        if self.h is None or self.h.dead:
            return
        t = 0 if self.h.p.get("kind") == "brick" else b["t"] % self.h.n      # frame 0 of a brick series is the exact one
        for lim in ("inf", "default"):
            self._do(dict(b, t=t, limit=lim))
            if self.h.dead or not self.h.last_build:
                return
            pool = sorted(self.h.last_build)
            self._do(dict(s, t=pool.index(t) if t in pool else 0, method=None))
            if self.h.dead:
                return

    @rule(b=BUILD, s=SOLVE)
    def new_solver_object_then_build_and_solve(self, b, s):
        """ForSys constructed again over the same, already solved, Frame objects; then a build and a solve."""
        if self.h is None or self.h.dead or not self.h.last_solve:
            return
        self._do({"op": "newsolver"})
        if self.h.dead:
            return
        b = dict(b, t=b["t"] % self.h.n)
        self._do(b)
        if not self.h.dead and self.h.last_build:
            pool = sorted(self.h.last_build)
            self._do(dict(s, t=pool.index(b["t"]) if b["t"] in pool else 0))

    @rule(step=PSOLVE)
    def psolve(self, step):
        self._do(step)

    @rule(step=SYSVEL, s=SOLVE)
    def sysvel(self, step, s):
        """get_system_velocity_per_frame() rebuilds every force matrix (no limit, dlite); a solve right after it
        must use those matrices."""
        self._do(step)
        if self.h is not None and not self.h.dead and self.h.last_build:
            self._do(s)

    def closing_sequence(self):
        """Every history ends the same way: each solved frame is solved once more with the other right-hand side
        (no rebuild) and its pressure step is redone, so stale caches of either step always get a chance to show."""
        h = self.h
        # (a) smooth the first solved frame, build it again with the very same options and solve (a cache keyed by
        # the options must not hand back the matrix of the unsmoothed frame)
        for t in sorted(h.last_solve)[:1]:
            b = dict(h.last_build[t], t=t)
            if b.get("op") == "build" and "fit" in b:
                self._do({"op": "filter", "t": t})
                if not h.dead:
                    self._do(b)
                if not h.dead:
                    self._do(dict(h.last_solve[t], op="solve", t=sorted(h.last_build).index(t)))
        # (a2) series whose first frame has exactly straight-through junctions: unlimited build and solve, then the
        # default limit (flags them) and solve again
        if h.p.get("kind") == "brick" and not h.dead:
            b0 = {"op": "build", "t": 0, "fit": "dlite", "ignore_four": False, "omit": 0}
            s0 = {"op": "solve", "method": None, "b_matrix": None, "allow_negatives": True, "adim": False, "x0": "none",
                  "omit": False}
            for lim in ("inf", "default"):
                self._do(dict(b0, limit=lim))
                if h.dead:
                    return
                self._do(dict(s0, t=sorted(h.last_build).index(0)))
                if h.dead:
                    return
            CTX.count("closing:unlimited-then-default-on-exact-T-junctions")
        # (b) re-solve every solved frame with the other right-hand side and redo its pressure step
        for t in sorted(h.last_solve):
            if h.dead:
                return
            prev = h.last_solve[t]
            s = dict(prev, op="solve", t=sorted(h.last_build).index(t),
                     b_matrix=("velocity" if prev.get("b_matrix") is None else None), method=None)
            self._do(s)
            if h.dead:
                return
            self._do({"op": "pbuild", "t": sorted(h.last_solve).index(t)})
            if not h.dead and t in h.pbasis:
                self._do({"op": "psolve", "t": sorted(h.pbasis).index(t)})
            if not h.dead and t in h.pbasis:
                # and once more without rebuilding the pressure matrix
                self._do({"op": "psolve", "t": sorted(h.pbasis).index(t)})

    def teardown(self):
        if self.h is not None and not self.h.dead:
            try:
                self.closing_sequence()
            except Exception:
                raise
        if self.h is not None and not self.h.dead:
            h = self.h
            CTX.count("steps", len(h.steps))
            nsolve = sum(1 for s in h.steps if s["op"] == "solve")
            CTX.count("solves", nsolve)
            if h.revisit and nsolve >= 2:
                CTX.mark_nontrivial(h.params())
                CTX.sample({"series": {k: h.p.get(k) for k in ("kind", "n_cells", "nx", "ny", "n_frames")},
                            "steps": [{k: v for k, v in s.items()} for s in h.steps]}, cap=6)


def check_history(params, ctx):
    """Plain replay of a recorded history (no Hypothesis)."""
    np.seterr(all="raise")
    h = History(params["series"], ctx)
    for step in params["steps"]:
        if h.dead:
            break
        h.apply(step, raw=False)


def run(ctx):
    global CTX
    CTX = ctx
    n = ctx.budget(quick=40, thorough=220)
    from hypothesis import settings, HealthCheck, Phase
    st_ = settings(max_examples=n, stateful_step_count=18, database=None, deadline=None, derandomize=False,
                   report_multiple_bugs=False, suppress_health_check=list(HealthCheck),
                   phases=[Phase.generate], print_blob=False)
    machine = hypothesis.seed(int(ctx.seed) * 7919 + 3)(ForSysMachine)
    run_state_machine_as_test(machine, settings=st_)


CASES = {"history": check_history}
