"""C02 - force-balance equations: one unknown per internal interface, two equations per proper junction, coefficient
pairs = outward unit tangents (closed form), zeros elsewhere."""
import math

import numpy as np
from hypothesis import strategies as st

from .. import gen
from ..core import call, drive
from ..realise import realise, make_frame

PROP = "C02"
RULE = ("Hypothesis draws a tissue (Voronoi / Moebius image / hex, square, brick lattice), an optional edge-connected "
        "pinch-free sub-tissue, 0..15 interior points per interface, a pose (scale 1e-3..1e3, shift up to 1e4 sizes, "
        "reflection, rotation uniform or snapped so a chosen tangent sits at k*90deg + {0,1e-9,1e-4,0.3deg}), a "
        "labelling, fit method and ignore_four; the assembled matrix is compared entry by entry with closed-form "
        "tangents. Non-trivial = at least one expected junction row; distinct = fingerprint of the drawn parameters.")
ASSUMPTIONS = [
    "closed-form tangents of exact arcs/lines are the ground truth; tolerance per interface class from measured "
    "circle-fit noise floors (DESIGN 2.4)",
    "sub-tissues are edge-connected and pinch-free by construction (loop interfaces excluded, DESIGN D16)",
    "coefficient pairs whose tangent/first-chord straddle a coordinate axis are the known finding D1 and are skipped",
]

from ..infer import eps_coef  # per-class tolerance on a unit-tangent component (measured floors)


@st.composite
def params(draw, tier):
    big = 40 if tier == "thorough" else 22
    p = draw(gen.tissue_params(kinds=("voronoi", "voronoi", "moebius", "moebius", "moebius", "moebius"),
                               lattices=("hex", "square", "brick"), max_cells=big, allow_sub=True))
    p["fit"] = draw(st.sampled_from(["dlite", "taubinSVD"]))
    p["ignore_four"] = draw(st.booleans())
    # brick and square lattices have exactly straight-through junctions, which the default limit (pi) flags by design (C16)
    p["angle_limit"] = "inf" if p["kind"] in ("brick", "square") else draw(st.sampled_from(["default", "inf"]))
    # the Frame is constructed while the vertices still sit elsewhere (shifted, interior points on the chords) and the
    # coordinates get their final values in place afterwards, as TimeSeries(cm=True) or a rescaling caller do
    p["late_coords"] = draw(st.sampled_from([False, False, False, True]))
    return p


def build(p, stats=None):
    t0 = gen.build_base(p)
    t1 = gen.apply_sub(t0, p, connected=True, no_pinch=True, stats=stats)
    nint = gen.n_int_func(t1, p)
    t2, angle = gen.apply_pose(t1, p.get("pose"), nint)
    return t2, nint


def expected_structure(t, nint, also=()):
    """(internal ridge list, {junction: [internal ridges ending there]}, cells-at-junction, ambiguous ridges)"""
    caj = t.cells_at_junction()
    internal, ambiguous = t.classify_ridges(nint)
    internal = sorted(set(internal) | (set(also) & set(ambiguous)))
    at = {}
    for ri in internal:
        r = t.ridges[ri]
        for j in (r.a, r.b):
            at.setdefault(j, []).append(ri)
    return internal, at, caj, ambiguous


def real_straddle(t, R, ri, j):
    """D1 predicate evaluated on the realised coordinates (the first segment as forsys sees it)."""
    from ..infer import straddle_err
    r = t.ridges[ri]
    n = R.n_int[ri]
    chain = [("J", r.a)] + [("I", ri, k) for k in range(n)] + [("J", r.b)]
    a, b = (chain[0], chain[1]) if j == r.a else (chain[-1], chain[-2])
    va, vb = R.vertices[R.vid_of_tok[a]], R.vertices[R.vid_of_tok[b]]
    ch = complex(vb.x - va.x, vb.y - va.y)
    return straddle_err(t.tangent(ri, j), ch)


def check_case(p, ctx):
    import forsys as fs
    stats = {}
    t, nint = build(p, stats)
    for k, v in stats.items():
        ctx.count(k, v)
    R = realise(t, nint, gen.lab_of(p))
    if gen.snap_chord_exact(t, R, p.get("pose")):
        ctx.count("first-segment-exactly-axis-parallel")
    saved = None
    if p.get("late_coords"):
        saved = {vid: (v.x, v.y) for vid, v in R.vertices.items()}
        ext = t.extent()
        for vid, v in R.vertices.items():
            tok = R.tok_of_vid[vid]
            if tok[0] == "I":
                r = t.ridges[tok[1]]
                z = t.J[r.a] + (t.J[r.b] - t.J[r.a]) * (tok[2] + 1) / (R.n_int[tok[1]] + 1)
                v.x, v.y = float(z.real), float(z.imag)
            v.x += 3.0 * ext
            v.y -= 2.0 * ext
        ctx.count("coordinates-finalised-after-frame-construction")
    frame = make_frame(R)
    fsys = call(fs.ForSys, {0: frame})
    if saved:
        for vid, (x, y) in saved.items():
            R.vertices[vid].x, R.vertices[vid].y = x, y
    kw = dict(when=0, metadata={"ignore_four": p["ignore_four"]}, circle_fit_method=p["fit"])
    if not p["ignore_four"] and p.get("seed", 0) % 2:
        del kw["metadata"]                      # documented default: junctions of four or more are kept
        if p["fit"] == "dlite":
            del kw["circle_fit_method"]
    if p["angle_limit"] == "inf":
        kw["angle_limit"] = np.inf
    call(fsys.build_force_matrix, **kw)
    fm = fsys.force_matrices[0]
    M = np.asarray(fm.matrix, dtype=float)

    _, _, _, ambiguous = expected_structure(t, nint)
    ctx.count("kind:" + p["kind"])
    if p.get("sub"):
        ctx.count("sub-tissue")

    # ---- columns: one per internal interface, in Frame order
    cols = fm.big_edges_to_use
    col_ridge = []
    for path in cols:
        rs = R.ridge_of_bigedge(path)
        col_ridge.append(next(iter(rs)) if len(rs) == 1 else None)
    # two-point notch edges (ambiguous by the statement itself) are accepted with or without a column
    internal, at, caj, _ = expected_structure(t, nint, also=[x for x in col_ridge if x in ambiguous])
    if ambiguous:
        ctx.count("has-ambiguous-two-point-notch-edge")
    if sorted(x for x in col_ridge if x is not None) != sorted(internal) or None in col_ridge:
        return ctx.violation("columns", p, observed={"n": len(cols), "ridges": sorted(str(x) for x in col_ridge)},
                             expected={"n": len(internal), "ridges": sorted(internal)})
    if [list(x) for x in cols] != [list(x) for x in frame.internal_big_edges_vertices]:
        return ctx.violation("column-order", p, observed="big_edges_to_use differs from internal interface order",
                             expected="same order")
    col_of = {ri: k for k, ri in enumerate(col_ridge)}

    # ---- rows
    exp_rows = {}
    for j, rs in at.items():
        if len(caj[j]) >= 3 and len(rs) >= 3:
            if p["ignore_four"] and len(rs) >= 4:
                continue
            exp_rows[R.vid_of_tok[("J", j)]] = (j, rs)
    got = dict(fm.map_vid_to_row)
    if set(got) != set(exp_rows):
        return ctx.violation("row-set", p,
                             observed={"extra": sorted(set(got) - set(exp_rows))[:6],
                                       "missing": sorted(set(exp_rows) - set(got))[:6], "n": len(got)},
                             expected={"n": len(exp_rows)})
    if sorted(got.values()) != list(range(0, 2 * len(exp_rows), 2)):
        return ctx.violation("row-index", p, observed=sorted(got.values())[:10], expected="0,2,4,...")
    if M.shape != (2 * len(exp_rows), len(internal)):
        return ctx.violation("shape", p, observed=list(M.shape), expected=[2 * len(exp_rows), len(internal)])

    # ---- coefficients
    nearaxis = exactzero = twopoint = False
    expected_nz = np.zeros(M.shape, dtype=bool)
    worst = None
    d1 = 0
    for vid, (j, rs) in exp_rows.items():
        r0 = got[vid]
        for ri in rs:
            c = col_of[ri]
            expected_nz[r0, c] = expected_nz[r0 + 1, c] = True
            tg = t.tangent(ri, j)
            r = t.ridges[ri]
            npts = nint[ri] + 2
            tol = eps_coef(r.theta if r.c is not None else 0.0, npts, p["fit"])
            if npts == 2:
                twopoint = True
            if min(abs(tg.real), abs(tg.imag)) < 1e-3:
                nearaxis = True
            if tg.real == 0 or tg.imag == 0:
                exactzero = True
            if real_straddle(t, R, ri, j) > tol / 2:
                d1 += 1
                continue
            err = max(abs(M[r0, c] - tg.real), abs(M[r0 + 1, c] - tg.imag))
            cls = ("2pt" if npts == 2 else "straight" if r.c is None else
                   "nearstraight" if abs(r.theta) < (0.1 if p["fit"] == "dlite" else 0.01) else "curved") + ":" + p["fit"]
            key = "maxerr:" + cls
            ctx.classes[key] = max(ctx.classes.get(key, 0.0), float(err))
            if err > tol and (worst is None or err / tol > worst[0]):
                worst = (err / tol, ri, j, [float(M[r0, c]), float(M[r0 + 1, c])], [tg.real, tg.imag], tol, cls)
    if d1:
        ctx.known("D1", d1)
        ctx.count("coef-skipped-D1", d1)
    if worst is not None:
        return ctx.violation("coefficient", p, observed=worst[3], expected=worst[4],
                             detail={"ridge": worst[1], "junction": worst[2], "tol": worst[5], "class": worst[6]})
    stray = np.argwhere((M != 0) & ~expected_nz)
    if len(stray):
        i, k = stray[0]
        return ctx.violation("stray-nonzero", p, observed={"row": int(i), "col": int(k), "value": float(M[i, k])},
                             expected=0.0)
    if exp_rows:
        ctx.mark_nontrivial(p)
        ctx.sample({"params": p, "rows": len(exp_rows), "cols": len(internal)})
    else:
        ctx.count("trivial:no-junction-row")
    if nearaxis:
        ctx.count("near-axis")
    if exactzero:
        ctx.count("exact-zero-component")
    if twopoint:
        ctx.count("two-point")


def run(ctx):
    n = ctx.budget(quick=700, thorough=1500)
    drive(ctx, params(ctx.tier), check_case, n, label="tissue")


CASES = {"tissue": check_case}


# ------------------------------------------------------------------ known-finding demonstrators
def demo_D1():
    """Fixed tissue with a tangent/chord pair straddling the x axis: returns the error forsys makes there (0 = gone)."""
    import forsys as fs
    p = {"kind": "moebius", "mode": "grid", "n_cells": 8, "seed": 12345, "jitter": 0.15, "pole_logd": math.log(1.6),
         "pole_phi": 1.0, "n_int": {"mode": "const", "k": 2}, "sub": None}
    t = gen.build_base(p)
    nint = gen.n_int_func(t, p)
    internal, at, caj, _ = expected_structure(t, nint)
    # choose a junction row end and rotate so that the tangent sits just across the axis from the chord
    for j, rs in sorted(at.items()):
        if len(caj[j]) >= 3 and len(rs) >= 3:
            ri = rs[0]
            break
    a = math.atan2(t.tangent(ri, j).imag, t.tangent(ri, j).real)
    b = math.atan2(t.chord_dir(ri, j, nint[ri]).imag, t.chord_dir(ri, j, nint[ri]).real)
    mid = (a + (b - a + math.pi) % (2 * math.pi) - math.pi + a) / 2
    t2 = t.similarity(angle=-mid)
    e = gen.straddle_error(t2, ri, j, nint[ri])
    R = realise(t2, nint)
    frame = make_frame(R)
    fsys = fs.ForSys({0: frame})
    call(fsys.build_force_matrix, when=0, angle_limit=np.inf)
    fm = fsys.force_matrices[0]
    vid = R.vid_of_tok[("J", j)]
    r0 = fm.map_vid_to_row[vid]
    for k, path in enumerate(fm.big_edges_to_use):
        if R.ridge_of_bigedge(path) == {ri}:
            tg = t2.tangent(ri, j)
            return max(abs(fm.matrix[r0, k] - tg.real), abs(fm.matrix[r0 + 1, k] - tg.imag)), e
    return 0.0, e


def demonstrators():
    def d1():
        err, e = demo_D1()
        return err > 1e-4, f"mirrored tangent component, error {err:.3g} (predicted {e:.3g})"
    return {"D1": d1}
