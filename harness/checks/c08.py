"""C08 - interfaces partition the mesh edges; internal/external classification is exact."""
import itertools

import numpy as np
from hypothesis import strategies as st

from .. import gen, refdecomp
from ..core import call, drive, run_case
from ..realise import realise, make_frame, Labelling
from ..tissue import PRNG

PROP = "C08"
RULE = ("(1) exhaustive: every one of the 2^n cell subsets (n <= 10) of small Voronoi/Moebius base tissues, each with a "
        "drawn sampling (0..15 interior points) and labelling; (2) Hypothesis: random subsets of tissues up to 60 cells "
        "and lattices, optionally passed through generate_mesh(ne>=2); (3) meshes built by each parser (Surface Evolver "
        "dump, WKT, tessellation, shipped and synthetic skeleton images), optionally resampled. Frame.big_edges_list and the three copies of the "
        "internal/external predicate are compared with an independent multigraph walk + cell-count predicate. "
        "Non-trivial = sub-tissue with >=1 internal and >=1 external interface; distinct = (base, subset, sampling).")
ASSUMPTIONS = [
    "reference decomposition walks the raw edge dict by edge id (independent of create_edges_new)",
    "two-point interfaces bordering one cell whose ends satisfy the internal predicate (notch edges) are ambiguous by "
    "the statement itself: 'separates exactly two cells' is not asserted for them",
    "cells touching only at a vertex (pinch) are kept: frame construction must still partition the mesh edges",
]


def check_frame(ctx, p, vertices, edges, cells, label):
    """All C08 assertions on one mesh. Returns a dict of class flags or None after recording a violation."""
    import forsys.frames as fframes
    paths, info = refdecomp.reference_interfaces(vertices, edges, cells)
    ref = {}
    for pth in paths:
        ref[refdecomp.canon(pth)] = pth
    frame = call(fframes.Frame, 0, vertices, edges, cells, time=0.0)
    got_list = [list(map(int, e)) for e in frame.big_edges_list]
    got = {}
    for k, e in enumerate(got_list):
        c = refdecomp.canon(e)
        if c in got:
            ctx.violation("duplicate-interface", p, observed=e, expected="listed once", kind=label)
            return None
        got[c] = k
    if set(got) != set(ref):
        extra = [list(x) for x in sorted(set(got) - set(ref))[:3]]
        missing = [list(x) for x in sorted(set(ref) - set(got))[:3]]
        ctx.violation("interface-set", p, observed={"extra": extra, "n": len(got)},
                      expected={"missing": missing, "n": len(ref)}, kind=label)
        return None
    # every mesh edge of a cell that has a junction lies in exactly one interface
    cover = {}
    for e in got_list:
        for i in range(len(e) - 1):
            cover[frozenset((e[i], e[i + 1]))] = cover.get(frozenset((e[i], e[i + 1])), 0) + 1
    for pair, cs in info["edge_cells"].items():
        if cs & info["cells_with_junction"]:
            # parallel mesh edges between the same two vertices (2-gon cells) are legitimately covered twice
            mult = sum(1 for ed in edges.values() if frozenset((ed.v1.id, ed.v2.id)) == pair) if cover.get(pair, 0) > 1 else 1
            if cover.get(pair, 0) != mult:
                ctx.violation("edge-cover", p, observed={"pair": sorted(pair), "times": cover.get(pair, 0)},
                              expected=1, kind=label)
                return None
    # classification
    cov = info["cov"]
    exp_internal = [k for k, e in enumerate(got_list) if refdecomp.is_internal(e, cov)]
    flags = [k for k, e in enumerate(got_list) if not frame.big_edges[k].external]
    ext_ids = set(frame.external_edges_id)
    via_ids = [k for k in range(len(got_list)) if k not in ext_ids and
               (len(cov.get(got_list[k][0], ())) > 2 or len(cov.get(got_list[k][-1], ())) > 2)]
    ibv = [got[refdecomp.canon(list(map(int, e)))] for e in frame.internal_big_edges_vertices]
    ib = [be.big_edge_id for be in frame.internal_big_edges]
    for name, lst in (("BigEdge.external", flags), ("internal_big_edges_vertices", ibv), ("internal_big_edges", ib),
                      ("external_edges_id", via_ids)):
        if lst != exp_internal:
            ctx.violation("classification:" + name, p,
                          observed=lst[:12], expected=exp_internal[:12],
                          detail={"differs": sorted(set(lst) ^ set(exp_internal))[:5]}, kind=label)
            return None
    n_amb = 0
    for k in exp_internal:
        e = got_list[k]
        sep = refdecomp.interface_cells(e, info)
        be = frame.big_edges[k]
        if len(e) == 2 and len(sep) == 1:
            n_amb += 1
            continue
        if len(e) == 2 and len(sep) == 2 and set(sep) < set(be.own_cells) and \
                set(be.own_cells) == set(cov.get(e[0], ())) & set(cov.get(e[1], ())):
            # known finding D29: a further cell touches both ends of a one-edge interface (the other side of a cell
            # with only two junctions) and is listed as a third owner
            ctx.known("D29")
            ctx.exclude_known("D29")
            continue
        if len(sep) != 2 or sorted(be.own_cells) != sorted(sep) or len(be.own_cells) != 2:
            ctx.violation("internal-separates-two-cells", p, observed=sorted(be.own_cells), expected=sorted(sep),
                          detail={"interface": e[:6]}, kind=label)
            return None
    df = call(frame.get_tensions)
    if [int(x) for x in df["id"].values] != exp_internal:
        ctx.violation("tension-table-ids", p, observed=[int(x) for x in df["id"].values][:12],
                      expected=exp_internal[:12], kind=label)
        return None
    dfg = call(frame.get_gt_tensions)
    if [int(x) for x in dfg["id"].values] != exp_internal:
        ctx.violation("reference-tension-table-ids", p, observed=[int(x) for x in dfg["id"].values][:12],
                      expected=exp_internal[:12], kind=label)
        return None
    dfa = call(frame.get_tensions, with_border=True)
    if [int(x) for x in dfa["id"].values] != list(range(len(got_list))):
        ctx.violation("full-tension-table-ids", p, observed=[int(x) for x in dfa["id"].values][:12],
                      expected=f"0..{len(got_list) - 1}", kind=label)
        return None
    # lookup by cells
    pair_count = {}
    for k in range(len(got_list)):
        e = got_list[k]
        if len(e) > 2:
            sep = refdecomp.interface_cells(e, info)
            if len(sep) == 2:
                pair_count[frozenset(sep)] = pair_count.get(frozenset(sep), 0) + 1
    looked = 0
    for k in exp_internal:
        e = got_list[k]
        if len(e) <= 2:
            continue
        sep = refdecomp.interface_cells(e, info)
        if len(sep) != 2 or pair_count.get(frozenset(sep)) != 1:
            continue
        a, b = sorted(sep)
        for x, y in ((a, b), (b, a)):
            r = call(frame.get_big_edge_by_cells, x, y)
            if r.big_edge_id != k:
                ctx.violation("lookup-by-cells", p, observed=r.big_edge_id, expected=k, kind=label)
                return None
        looked += 1
    n_int_ = len(exp_internal)
    n_ext = len(got_list) - n_int_
    return {"internal": n_int_, "external": n_ext, "ambiguous": n_amb, "lookups": looked, "interfaces": len(got_list)}


# ------------------------------------------------------------------------------------------ exhaustive part
def base_params(k, seed):
    rng = PRNG(seed * 1000 + k)
    kind = ["voronoi", "moebius", "voronoi", "moebius", "square", "hex", "brick"][k % 7]
    if kind in ("square", "hex", "brick"):
        nx = int(rng.integers(2, 4))
        p = {"kind": kind, "nx": nx, "ny": 3 if nx * 3 <= 10 else 2}
    else:
        p = {"kind": kind, "mode": ["uniform", "grid", "clustered"][k % 3], "n_cells": int(rng.integers(5, 11)),
             "seed": int(rng.integers(0, 2 ** 31)), "jitter": 0.3}
    if kind == "moebius":
        p["pole_logd"] = float(rng.uniform(0.2, 2.0))
        p["pole_phi"] = float(rng.uniform(0, 6.28))
    lo = 1 if kind == "moebius" else 0
    p.setdefault("seed", 0)
    mode = int(rng.integers(0, 3))
    if mode == 0:
        p["n_int"] = {"mode": "const", "k": int(rng.integers(lo, 4))}
    else:
        p["n_int"] = {"mode": "per", "lo": lo, "hi": int(rng.integers(lo, 16)), "seed": int(rng.integers(0, 2 ** 31))}
    p["lab"] = dict(seed=int(rng.integers(0, 2 ** 31)), relabel_v=bool(rng.integers(0, 2)),
                    relabel_e=bool(rng.integers(0, 2)), relabel_c=bool(rng.integers(0, 2)),
                    shifts=bool(rng.integers(0, 2)), flips=["none", "all", "mixed"][int(rng.integers(0, 3))],
                    flip_bits=None)
    return p


def check_subset(p, ctx):
    """p = base params + 'mask' (bit i = i-th cell in id order kept)."""
    t0 = gen.build_base(p)
    ids = sorted(t0.cells)
    keep = [c for i, c in enumerate(ids) if (p["mask"] >> i) & 1]
    if not keep:
        return
    t = t0.subtissue(keep)
    nint = gen.n_int_func(t0, p)
    # sampling is a function of the base ridge, so every subset sees the same points
    remap = {}
    used = sorted({ri for c in keep for ri, _ in t0.cells[c]})
    for new, old in enumerate(used):
        remap[new] = nint[old]
    R = realise(t, remap, gen.lab_of(p))
    res = check_frame(ctx, p, R.vertices, R.edges, R.cells, "subset")
    if res is None:
        return
    comps = t.cell_adjacency_components()
    pinch = bool(t.pinch_junctions())
    ctx.count("subsets")
    if len(comps) > 1:
        ctx.count("class:edge-disconnected")
    if pinch:
        ctx.count("class:has-pinch-vertex")
    if len(keep) == 1:
        ctx.count("class:single-cell")
    if res["ambiguous"]:
        ctx.count("class:has-ambiguous-notch-edge")
    if res["interfaces"] == 0:
        ctx.count("class:no-junction")
    # hole: a missing cell whose neighbours are all kept
    if res["internal"] >= 1 and res["external"] >= 1:
        ctx.mark_nontrivial({"base": {k: v for k, v in p.items() if k != "mask"}, "mask": p["mask"]})
        if len(ctx.samples) < 6 and p["mask"] % 37 == 5:
            ctx.sample({"params": p, **res})
    ctx.count("lookups-by-cells", res["lookups"])


def _subset_job(args):
    p, masks, tier, seed = args
    from ..core import Ctx
    import warnings
    warnings.simplefilter("ignore")
    ctx = Ctx(PROP, tier, seed)
    for m in masks:
        q = dict(p, mask=m)
        ctx.evaluations += 1
        run_case(ctx, check_subset, q, "subset")
    return ctx.export()


# ------------------------------------------------------------------------------------------ two-junction cells
def dcell_mesh(p):
    """A cell X with exactly two junctions between a left, a right and a bottom neighbour: its lower side is an arc
    with k interior points shared with the bottom cell, its upper side one straight mesh edge - free ('border'
    variant) or shared with a top cell ('lens' variant). All stored rotations / orientations / construction orders."""
    import math
    import forsys.vertex as fvertex
    import forsys.edge as fedge
    import forsys.cell as fcell
    k = p["k"]
    arc = [(1.0 + (i + 1) / (k + 1), 1.0 - 0.35 * math.sin(math.pi * (i + 1) / (k + 1))) for i in range(k)]
    J1, J2 = (1.0, 1.0), (2.0, 1.0)
    polys = {
        "L": [(0.0, 0.0), (1.0, 0.0), J1, (1.0, 2.0), (0.0, 2.0)],
        "R": [(2.0, 0.0), (3.0, 0.0), (3.0, 2.0), (2.0, 2.0), J2],
        "B": [(1.0, 0.0), (2.0, 0.0), J2] + arc[::-1] + [J1],
        "X": [J1] + arc + [J2],
    }
    if p["variant"] == "lens":
        polys["T"] = [J1, J2, (2.0, 2.0), (1.0, 2.0)]
    else:
        polys["L"] = [(0.0, 0.0), (1.0, 0.0), J1, (0.0, 1.0)]
        polys["R"] = [(2.0, 0.0), (3.0, 0.0), (3.0, 1.0), J2]
    names = sorted(polys)
    order = [names[(i + p["order"]) % len(names)] for i in range(len(names))]
    vid, V, E, C = {}, {}, {}, {}
    pairs = set()
    for ci, name in enumerate(order):
        poly = polys[name]
        if name == "X":
            r = p["rot"] % len(poly)
            poly = poly[r:] + poly[:r]
        if (p["flips"] >> names.index(name)) & 1:
            poly = poly[::-1]
        vs = []
        for q in poly:
            if q not in vid:
                vid[q] = 3 + 2 * len(vid)
                V[vid[q]] = fvertex.Vertex(vid[q], float(q[0]), float(q[1]))
            vs.append(V[vid[q]])
        for a, b in zip(vs, vs[1:] + vs[:1]):
            if frozenset((a.id, b.id)) not in pairs:
                pairs.add(frozenset((a.id, b.id)))
                eid = 10 + len(E)
                E[eid] = fedge.SmallEdge(eid, a, b)
        C[20 + ci] = fcell.Cell(20 + ci, vs)
    return V, E, C


def check_dcell(p, ctx):
    V, E, C = dcell_mesh(p)
    res = check_frame(ctx, p, V, E, C, "dcell")
    if res is None:
        return
    ctx.count("two-junction-cell:" + p["variant"])
    ctx.count("lookups-by-cells", res["lookups"])
    if res["internal"] >= 1 and res["external"] >= 1:
        ctx.mark_nontrivial(p)


def run_serial(ctx):
    """Exhaustive enumeration (Pool(16)); runs once, in the parent."""
    n_d = 0
    for variant in ("border", "lens"):
        ncell = 5 if variant == "lens" else 4
        for k in (1, 2, 4):
            for rot in range(k + 2):
                for flips in (0, 1 << 3 if variant == "border" else 1 << 4, (1 << ncell) - 1, 0b0101):
                    for order in range(ncell):
                        ctx.evaluations += 1
                        n_d += 1
                        run_case(ctx, check_dcell, {"variant": variant, "k": k, "rot": rot, "flips": flips,
                                                    "order": order}, "dcell")
    ctx.notes.append(f"{n_d} stored forms of the two-junction-cell tissues enumerated completely")
    import multiprocessing as mp
    nbase = 9 if ctx.tier == "quick" else 42
    jobs = []
    total = 0
    for k in range(nbase):
        p = base_params(k, int(ctx.seed))
        try:
            t0 = gen.build_base(p)
        except (ValueError, gen.Degenerate):
            continue
        n = len(t0.cells)
        if n > 10:
            continue
        masks = list(range(1, 2 ** n))
        total += len(masks)
        chunk = max(1, len(masks) // 16 + 1)
        for i in range(0, len(masks), chunk):
            jobs.append((p, masks[i:i + chunk], ctx.tier, int(ctx.seed)))
    with mp.get_context("fork").Pool(16) as pool:
        for r in pool.map(_subset_job, jobs):
            ctx.merge(r)
    ctx.exhaustive_note = f"{total} subsets of {nbase} base tissues enumerated completely"
    ctx.notes.append(ctx.exhaustive_note)


# ------------------------------------------------------------------------------------------ random part
@st.composite
def params(draw, tier):
    p = draw(gen.tissue_params(kinds=("voronoi", "moebius"), lattices=("hex", "square", "brick"),
                               max_cells=60 if tier == "thorough" else 35, min_cells=4, allow_sub=True, pose=False))
    if p.get("sub"):
        p["sub"]["frac"] = draw(st.floats(0.2, 0.95))
    p["ne"] = draw(st.one_of(st.none(), st.none(), st.integers(2, 12)))
    return p


def check_random(p, ctx):
    import forsys.virtual_edges as fve
    from ..core import ForsysCrash
    t0 = gen.build_base(p)
    t = gen.apply_sub(t0, p, connected=False, no_pinch=False)
    nint = gen.n_int_func(t, p)
    R = realise(t, nint, gen.lab_of(p))
    v, e, c = R.vertices, R.edges, R.cells
    label = "random"
    if p.get("ne"):
        try:
            v, e, c, _ = call(fve.generate_mesh, v, e, c, ne=p["ne"])
        except ForsysCrash as cr:
            if type(cr.exc).__name__ == "SegmentationArtifactException":
                ctx.skip("generate_mesh rejected the mesh (SegmentationArtifactException)")
                return
            ctx.skip(f"generate_mesh crashed ({cr.kind}): reported under C11")
            return
        pairs = [frozenset((ed.v1.id, ed.v2.id)) for ed in e.values()]
        if len(set(pairs)) != len(pairs) or any(len(cell.vertices) < 3 for cell in c.values()):
            # contraction collapsed a triangle into a 2-gon / produced parallel mesh edges: known finding D22
            ctx.exclude_known("D22")
            ctx.count("excluded:D22-degenerate-cell-after-contraction")
            return
        ctx.count("after-resampling")
    res = check_frame(ctx, p, v, e, c, label)
    if res is None:
        return
    ctx.count("kind:" + p["kind"])
    if res["internal"] >= 1 and res["external"] >= 1:
        ctx.mark_nontrivial(p)
        ctx.sample({"params": p, **res})
    if res["ambiguous"]:
        ctx.count("class:has-ambiguous-notch-edge")
    ctx.count("lookups-by-cells", res["lookups"])


# ------------------------------------------------------------------------------------------ parser part
@st.composite
def params_parser(draw, tier):
    """Meshes as the parsers build them (Surface Evolver dump, WKT, tessellation, shipped and synthetic skeletons),
    optionally resampled: same strategy as C09's construction paths without the direct-construction one."""
    from . import c09
    p = draw(c09.params(tier).filter(lambda q: q["source"] != "realise"))
    p["ne"] = draw(st.one_of(st.none(), st.integers(2, 12)))
    p.pop("ops", None)
    return p


def check_parser(p, ctx):
    import shutil
    import tempfile
    import forsys.virtual_edges as fve
    from ..core import ForsysCrash
    from . import c09
    tmpdir = tempfile.mkdtemp(prefix="c08_")
    try:
        v, e, c = c09.construct(p, tmpdir)
    except ForsysCrash as cr:
        if p["source"] == "raster" and p.get("raw") and cr.kind == "IndexError" and \
                cr.where == "skeleton.py:create_lattice":
            ctx.skip("skeleton parser raised on a raw raster (known finding D30, reported under C09)")
            return
        raise
    finally:
        shutil.rmtree(tmpdir, ignore_errors=True)
    if p["source"] == "raster" and p.get("raw") and p.get("wild"):
        from ..meshcheck import mesh_problems
        if mesh_problems(v, e, c):
            ctx.skip("skeleton parser left an inconsistent mesh on a raw irregular raster (known finding D30, C09)")
            return
    if p.get("ne"):
        try:
            v, e, c, _ = call(fve.generate_mesh, v, e, c, ne=p["ne"])
        except ForsysCrash as cr:
            ctx.skip(f"generate_mesh rejected or crashed ({cr.kind}): reported under C09 / C11")
            return
        pairs = [frozenset((ed.v1.id, ed.v2.id)) for ed in e.values()]
        if len(set(pairs)) != len(pairs) or any(len(cell.vertices) < 3 for cell in c.values()):
            ctx.exclude_known("D22")
            ctx.count("excluded:D22-degenerate-cell-after-contraction")
            return
    res = check_frame(ctx, p, v, e, c, "parser")
    if res is None:
        return
    ctx.count("parser:" + p["source"] + (":resampled" if p.get("ne") else ""))
    if res["internal"] >= 1 and res["external"] >= 1:
        ctx.mark_nontrivial(p)
        if len(ctx.samples) < 12:
            ctx.sample({"params": p, **res})
    ctx.count("lookups-by-cells", res["lookups"])


def run(ctx):
    n = ctx.budget(quick=250, thorough=300)
    drive(ctx, params(ctx.tier), check_random, n, label="random")
    drive(ctx, params_parser(ctx.tier), check_parser, ctx.budget(quick=80, thorough=200), label="parser", seed_offset=2)


def evidence_extra(ctx):
    return {"exhaustive_part": [n for n in ctx.notes if "enumerated completely" in n][:1],
            "exhaustive": bool([n for n in ctx.notes if "enumerated completely" in n])}


CASES = {"subset": check_subset, "random": check_random, "parser": check_parser, "dcell": check_dcell}


def demo_D29():
    """The 'lens' variant of the two-junction-cell tissue: the one-edge interface lists three owner cells."""
    import forsys.frames as fframes
    V, E, C = dcell_mesh({"variant": "lens", "k": 2, "rot": 0, "flips": 0, "order": 0})
    frame = call(fframes.Frame, 0, V, E, C, time=0.0)
    for be in frame.internal_big_edges:
        if len(be.vertices) == 2 and len(be.own_cells) > 2:
            return True, f"one-edge interface {be.get_vertices_ids()} lists owners {sorted(be.own_cells)}"
    return False, "every one-edge internal interface lists two owners"


def demonstrators():
    return {"D29": demo_D29}
