"""C07 - results do not depend on labels, storage order or cell orientation."""
import math

import numpy as np
from hypothesis import strategies as st

from .. import gen, infer
from ..core import call, drive, run_case
from ..nnls_kkt import reference_nnls
from ..realise import realise, make_frame, Labelling
from ..tissue import PRNG

PROP = "C07"
RULE = ("Hypothesis draws a tissue (exact or with vertex noise up to 20% of the sample spacing, any pose) and a second "
        "labelling (injective random vertex / edge / cell ids with gaps, cyclic shift of every cell's vertex list, a "
        "subset of cells stored in the opposite sense; in a third of the cases outer sides are straight polylines, one "
        "exactly horizontal and lowest/highest in its cell, the stored list starting inside it); forsys runs on the canonical and on the relabelled mesh and "
        "interfaces, equations, tensions, pressures and pressures for prescribed tensions are compared per physical "
        "interface / junction / cell. All "
        "2^cells orientation patterns are enumerated for small tissues. Non-trivial = at least two label dimensions "
        "changed and a flipped cell adjacent to an unflipped one; distinct = fingerprint of drawn parameters.")
ASSUMPTIONS = [
    "both runs see bit-identical coordinates; cells are inserted in construction order (as every parser does)",
    "coefficient pairs may differ by the circle-fit noise of their class (point order changes the optimiser's path); "
    "tension tolerance = 3 x the difference between certified NNLS solutions of the two assembled systems + 1e-6",
]


@st.composite
def params(draw, tier):
    p = draw(gen.tissue_params(kinds=("voronoi", "moebius", "moebius"), lattices=("hex",), max_cells=22, min_cells=5,
                               allow_sub=True, n_int_max=12, pose=True, labels=True))
    if p["pose"].get("rot_mode") == "snapchord":
        p["pose"]["rot_mode"] = "zero"
    p["noise"] = draw(st.sampled_from([0.0, 0.0, 0.05, 0.2]))
    p["nseed"] = draw(st.integers(0, 2 ** 32 - 1))
    p["fit"] = draw(st.sampled_from(["dlite", "taubinSVD"]))
    p["lab2"] = draw(gen.labelling_params())
    p["lab2"]["flips"] = draw(st.sampled_from(["mixed", "mixed", "all", "none"]))
    # outer sides drawn as straight polylines, one of them exactly horizontal and lowest in its cell, whose stored list
    # may start inside that side (what a cropped image or a synthetic tissue with a straight margin looks like)
    p["flat_bottom"] = draw(st.sampled_from([None, {"pick": draw(st.integers(0, 10 ** 6)),
                                                   "start_inside": draw(st.integers(0, 4)) > 0,
                                                   "up": draw(st.integers(0, 3)) == 0}]))
    return p


def noisy_realise(t, nint, lab, noise, nseed):
    R = realise(t, nint, lab)
    if noise > 0:
        rng = PRNG(nseed)
        toks = sorted(R.vid_of_tok, key=lambda x: (x[0], x[1:]))
        disp = {}
        for tok in toks:
            disp[tok] = rng.normal(size=2)
        for ri in range(len(t.ridges)):
            sp = t.length(ri) / (R.n_int[ri] + 1)
            r = t.ridges[ri]
            for tok in [("I", ri, k) for k in range(R.n_int[ri])]:
                if tok in R.vid_of_tok:
                    v = R.vertices[R.vid_of_tok[tok]]
                    v.x += float(disp[tok][0]) * noise * sp
                    v.y += float(disp[tok][1]) * noise * sp
        lens = {}
        for ri, r in enumerate(t.ridges):
            for j in (r.a, r.b):
                lens[j] = min(lens.get(j, math.inf), t.length(ri) / (R.n_int[ri] + 1))
        for j in t.J:
            tok = ("J", j)
            if tok in R.vid_of_tok:
                v = R.vertices[R.vid_of_tok[tok]]
                v.x += float(disp[tok][0]) * noise * lens[j]
                v.y += float(disp[tok][1]) * noise * lens[j]
    return R


def pipeline(t, nint, lab, p):
    import forsys as fs
    R = noisy_realise(t, nint, lab, p["noise"], p["nseed"])
    if p["noise"] > 0:
        # the noise must leave every cell a polygon of its stored orientation (a tiny cell can be turned inside out)
        for cid, cell in R.cells.items():
            a = 0.0
            vs = cell.vertices
            for k in range(len(vs)):
                a += vs[k].x * vs[(k + 1) % len(vs)].y - vs[(k + 1) % len(vs)].x * vs[k].y
            if (a < 0) != bool(R.flipped[cid]):        # counter-clockwise storage has positive shoelace sum
                raise gen.Degenerate("vertex noise inverted a cell")
    frame = make_frame(R)
    fsys = call(fs.ForSys, {0: frame})
    call(fsys.build_force_matrix, when=0, circle_fit_method=p["fit"], angle_limit=np.inf)
    fm = fsys.force_matrices[0]
    out = {"R": R, "frame": frame, "fsys": fsys}
    # interfaces as physical point sequences up to reversal
    seqs = set()
    for be in frame.internal_big_edges:
        toks = tuple(R.tok_of_vid[v] for v in be.get_vertices_ids())
        seqs.add(min(toks, toks[::-1]))
    out["interfaces"] = seqs
    # equations: {junction: {ridge: (cx, cy)}}
    eq = {}
    M = np.asarray(fm.matrix, float)
    col_ridge = []
    for path in fm.big_edges_to_use:
        rs = infer.ridge_of_path(R, path)
        col_ridge.append(next(iter(rs)) if len(rs) == 1 else ("?", tuple(path)))
    for vid, r0 in fm.map_vid_to_row.items():
        j = R.tok_of_vid[vid]
        row = {}
        for k, ri in enumerate(col_ridge):
            if M[r0, k] != 0 or M[r0 + 1, k] != 0:
                row[ri] = (float(M[r0, k]), float(M[r0 + 1, k]))
        eq[j] = row
    out["eq"] = eq
    out["cols"] = col_ridge
    out["M"] = M
    return out


def ordered_matrix(o, cols, junctions):
    cidx = {ri: k for k, ri in enumerate(o["cols"])}
    A = np.zeros((2 * len(junctions), len(cols)))
    for r_i, j in enumerate(junctions):
        for ri, (cx, cy) in o["eq"][j].items():
            A[2 * r_i, cols.index(ri)] = cx
            A[2 * r_i + 1, cols.index(ri)] = cy
    return A


def pressures_given(o, t):
    """Pressures per physical cell when every internal interface carries its ground-truth tension; None when the
    pressure system is not determined (disconnected interface graph, border-only cells)."""
    R, frame, fsys = o["R"], o["frame"], o["fsys"]
    for be in frame.internal_big_edges:
        rs = infer.ridge_of_path(R, be.get_vertices_ids())
        if len(rs) != 1:
            return None
        be.tension = float(t.ridges[next(iter(rs))].T)
    try:
        call(fsys.build_pressure_matrix, when=0)
        if not infer.interface_graph_connected(fsys.pressure_matrices[0].lhs_matrix):
            return None
        call(fsys.solve_pressure, when=0, method="lagrange_pressure")
    except Exception as e:
        if "expecting 2" in str(e):
            return None
        raise
    return {R.cell_of_cid[c]: float(cell.pressure) for c, cell in frame.cells.items()}


def compare(p, ctx, t, nint, lab1, lab2, label):
    o1 = pipeline(t, nint, lab1, p)
    o2 = pipeline(t, nint, lab2, p)
    if o1["interfaces"] != o2["interfaces"]:
        d = sorted(map(str, o1["interfaces"] ^ o2["interfaces"]))[:3]
        return ctx.violation("internal-interfaces-differ", p, observed=d, expected="same set", kind=label)
    if set(o1["eq"]) != set(o2["eq"]):
        return ctx.violation("junction-rows-differ", p, observed=sorted(map(str, set(o1["eq"]) ^ set(o2["eq"])))[:5],
                             expected="same junctions", kind=label)
    for j in o1["eq"]:
        if set(o1["eq"][j]) != set(o2["eq"][j]):
            return ctx.violation("equation-support-differs", p, observed=sorted(map(str, o2["eq"][j])),
                                 expected=sorted(map(str, o1["eq"][j])), detail={"junction": str(j)}, kind=label)
        for ri, (cx, cy) in o1["eq"][j].items():
            dx, dy = o2["eq"][j][ri]
            if isinstance(ri, tuple):
                continue
            r = t.ridges[ri]
            tol = 2 * infer.eps_coef(r.theta if r.c is not None else 0.0, nint[ri] + 2, p["fit"])
            if p["noise"] > 0:
                tol = max(tol, 2e-3)       # noisy points: the fits are well conditioned but not exact
            if max(abs(cx - dx), abs(cy - dy)) > tol:
                return ctx.violation("coefficient-differs", p, observed=[dx, dy], expected=[cx, cy],
                                     detail={"junction": str(j), "ridge": ri, "tol": tol}, kind=label)
    # pressures for prescribed tensions (the same value per physical interface in both runs): independent of whether
    # the tension optimum is unique, so it is compared for every tissue, small ones included
    pg = [pressures_given(o, t) for o in (o1, o2)]
    if pg[0] is not None and pg[1] is not None:
        scale = max(max(abs(v) for v in pg[0].values()), 1e-12)
        wc = max(pg[0], key=lambda c: abs(pg[0][c] - pg[1][c]))
        tolg = (1e-4 if p["noise"] == 0 else 0.1) * scale + 1e-9
        if abs(pg[0][wc] - pg[1][wc]) > tolg:
            return ctx.violation("pressure-for-given-tensions-differs", p, observed=pg[1][wc], expected=pg[0][wc],
                                 detail={"cell": wc, "tol": tolg}, kind=label)
        ctx.count("pressures-for-given-tensions-compared")
    cols = sorted(c for c in o1["cols"] if not isinstance(c, tuple))
    if len(cols) != len(o1["cols"]) or len(cols) < 2 or not o1["eq"]:
        ctx.count("trivial:no system")
        return True
    junctions = sorted(o1["eq"], key=str)
    A1, A2 = ordered_matrix(o1, cols, junctions), ordered_matrix(o2, cols, junctions)
    res = []
    refs = []
    for o, A in ((o1, A1), (o2, A2)):
        M, b = infer.augment(A)
        x = reference_nnls(M, b)
        refs.append(x)
        call(o["fsys"].solve_stress, when=0, allow_negatives=False)
        vals = [o["fsys"].forces[0][k] for k in range(len(o["cols"]))]
        res.append(infer.tensions_by_ridge(o["frame"], o["R"], vals))
    if refs[0] is None or refs[1] is None:
        ctx.skip("reference NNLS not certifiable")
        return True
    if not infer.full_column_rank(infer.augment(A1)[0], 1e-8):
        ctx.skip("rank-deficient system: optimum not unique")
        return True
    tol = 3.0 * float(np.max(np.abs(refs[0][:-1] - refs[1][:-1]))) + 1e-6
    if tol > 0.02:
        ctx.skip("conditioning: tolerance > 0.02")
        return True
    worst = max(cols, key=lambda ri: abs(res[0][ri] - res[1][ri]))
    if abs(res[0][worst] - res[1][worst]) > tol:
        return ctx.violation("tension-differs", p, observed=float(res[1][worst]), expected=float(res[0][worst]),
                             detail={"ridge": worst, "tol": tol}, kind=label)
    # pressures (needs every internal interface to separate two cells with an interior point or two-point identity)
    pr = []
    for o in (o1, o2):
        try:
            call(o["fsys"].build_pressure_matrix, when=0)
            if not infer.interface_graph_connected(o["fsys"].pressure_matrices[0].lhs_matrix):
                ctx.count("pressure-graph-disconnected(not compared)")
                pr = None
                break
            call(o["fsys"].solve_pressure, when=0, method="lagrange_pressure")
        except Exception as e:
            if "expecting 2" in str(e):
                pr = None
                break
            raise
        pr.append({o["R"].cell_of_cid[c]: float(cell.pressure) for c, cell in o["frame"].cells.items()})
    if pr:
        scale = max(max(abs(v) for v in pr[0].values()), 1e-12)
        wc = max(pr[0], key=lambda c: abs(pr[0][c] - pr[1][c]))
        tolp = 50 * tol * scale + 1e-6 * scale + 1e-9
        if abs(pr[0][wc] - pr[1][wc]) > tolp:
            return ctx.violation("pressure-differs", p, observed=pr[1][wc], expected=pr[0][wc],
                                 detail={"cell": wc, "tol": tolp}, kind=label)
        ctx.count("pressures-compared")
    return True


def _simple(poly):
    """No two non-adjacent segments of the closed polygon intersect."""
    n = len(poly)

    def orient(a, b, c):
        return ((b - a).conjugate() * (c - a)).imag

    for i in range(n):
        a, b = poly[i], poly[(i + 1) % n]
        for j in range(i + 2, n):
            if i == 0 and j == n - 1:
                continue
            c, d = poly[j], poly[(j + 1) % n]
            if orient(a, b, c) * orient(a, b, d) < 0 and orient(c, d, a) * orient(c, d, b) < 0:
                return False
    return True


def flat_bottom(t, nint, fb):
    """Outer sides become straight polylines (internal interfaces keep their shape: the systems are those of the
    original tissue); the tissue is turned so that a chosen outer side is exactly horizontal and the lowest (or
    highest) part of its cell. Returns (tissue, nint, [cell, token inside that side]) or None."""
    from dataclasses import replace
    import cmath
    border = [ri for ri, r in enumerate(t.ridges) if (r.left is None) != (r.right is None)]
    if not border:
        return None
    ridges = [replace(r, c=None, theta=0.0) if ri in border else r for ri, r in enumerate(t.ridges)]
    t1 = replace(t, ridges=ridges)
    ri = border[fb["pick"] % len(border)]
    r = t1.ridges[ri]
    cid = r.left if r.left is not None else r.right
    za, zb = t1.J[r.a], t1.J[r.b]
    t2 = t1.similarity(angle=-cmath.phase(zb - za))
    # which side is the cell on? turn by pi if it is below the side and the side should be the lowest part
    cyc = t2.cell_polygon(cid, lambda k: 0)
    cen = sum(t2.J[tok[1]] for tok in cyc) / len(cyc)
    below = cen.imag < t2.J[r.a].imag
    if below != bool(fb["up"]):
        t2 = t2.similarity(angle=cmath.pi)
    J = dict(t2.J)
    J[r.b] = complex(J[r.b].real, J[r.a].imag)        # exactly horizontal (moves one junction by rounding error)
    t2 = replace(t2, J=J)
    nint2 = dict(nint)
    nint2[ri] = max(nint2[ri], 2)
    for c in t2.cells:
        toks = t2.cell_polygon(c, lambda k: nint2[k])
        pts = [t2.J[tok[1]] if tok[0] == "J" else t2.points(tok[1], nint2[tok[1]])[tok[2]] for tok in toks]
        if not _simple(pts):
            return None
    ys = [t2.J[tok[1]].imag for tok in cyc]
    y0 = t2.J[r.a].imag
    extreme = all(y >= y0 for y in ys) if not fb["up"] else all(y <= y0 for y in ys)
    return t2, nint2, [cid, ["I", ri, nint2[ri] // 2]], extreme


def check_pair(p, ctx):
    t0 = gen.build_base(p)
    t0 = gen.apply_sub(t0, p, connected=True, no_pinch=True)
    nint = gen.n_int_func(t0, p)
    t, _ = gen.apply_pose(t0, p.get("pose"), nint)
    lab1 = Labelling()
    lab2 = Labelling.from_json(p["lab2"])
    if p.get("flat_bottom"):
        fb = flat_bottom(t, nint, p["flat_bottom"])
        if fb is None:
            ctx.skip("flat-bottom variant not simple")
            return
        t, nint, start, extreme = fb
        if p["flat_bottom"]["start_inside"]:
            lab2.start_at = start
        ctx.count("flat-outer-side" + (":extreme-of-its-cell" if extreme else ""))
    ok = compare(p, ctx, t, nint, lab1, lab2, "pair")
    if ok is not True:
        return
    dims = sum(map(bool, [lab2.relabel_v, lab2.relabel_e, lab2.relabel_c, lab2.shifts, lab2.flips != "none", lab2.perm_cells]))
    ctx.count("flips:" + lab2.flips)
    ctx.count("noise:" + str(p["noise"]))
    if dims >= 2 and lab2.flips == "mixed":
        ctx.mark_nontrivial(p)
        ctx.sample({"params": p})


def check_bits(p, ctx):
    """One orientation pattern (bit i = i-th cell stored clockwise) of a small tissue."""
    t0 = gen.build_base(p)
    nint = gen.n_int_func(t0, p)
    t, _ = gen.apply_pose(t0, p.get("pose"), nint)
    lab2 = Labelling(seed=p["mask"], flips="bits", flip_bits=p["mask"], shifts=True, relabel_v=bool(p["mask"] % 2))
    if p.get("flat_bottom"):
        fb = flat_bottom(t, nint, p["flat_bottom"])
        if fb is None:
            ctx.skip("flat-bottom variant not simple")
            return
        t, nint, lab2.start_at, _ = fb
    ok = compare(p, ctx, t, nint, Labelling(), lab2, "bits")
    if ok is True:
        ctx.count("orientation-patterns")
        n = len(t.cells)
        if 0 < p["mask"] < 2 ** n - 1:
            ctx.mark_nontrivial({k: v for k, v in p.items()})


def run_serial(ctx):
    """All 2^cells orientation patterns of a few small tissues."""
    nbase = 2 if ctx.tier == "quick" else 12
    for k in range(nbase):
        rng = PRNG(int(ctx.seed) * 77 + k)
        p = {"kind": ["moebius", "voronoi"][k % 2], "mode": "grid", "n_cells": int(rng.integers(5, 8 if ctx.tier == "quick" else 9)),
             "seed": int(rng.integers(0, 2 ** 31)), "jitter": 0.3, "pole_logd": 0.6, "pole_phi": float(rng.uniform(0, 6)),
             "n_int": {"mode": "const", "k": int(rng.integers(1, 6))},
             "pose": {"rot_mode": "uniform", "angle": float(rng.uniform(0, 6.28)), "shift": [0.0, 0.0], "logscale": 0.0,
                      "reflect": False},
             "noise": 0.0, "nseed": 0, "fit": ["dlite", "taubinSVD"][k % 2],
             "flat_bottom": {"pick": int(rng.integers(0, 1000)), "start_inside": True, "up": bool(k % 4 == 2)}
             if k % 2 == 0 else None}
        try:
            t0 = gen.build_base(p)
        except gen.Degenerate:
            continue
        n = len(t0.cells)
        if n > 9:
            continue
        for mask in range(2 ** n):
            ctx.evaluations += 1
            run_case(ctx, check_bits, dict(p, mask=mask), "bits")
        ctx.notes.append(f"all {2 ** n} orientation patterns of a {n}-cell tissue enumerated completely")


def run(ctx):
    drive(ctx, params(ctx.tier), check_pair, ctx.budget(quick=300, thorough=500), label="pair")


PARALLEL = True
CASES = {"pair": check_pair, "bits": check_bits}
