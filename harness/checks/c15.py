"""C15 - skeleton images are parsed into the tissue's true topology."""
import os
import shutil
import tempfile

import numpy as np
from hypothesis import strategies as st

from .. import raster, fixtures
from ..core import call, drive, run_case, ForsysCrash
from ..meshcheck import mesh_problems

PROP = "C15"
RULE = ("Hypothesis draws a Voronoi tissue (4..60 cells, junction angles > 25 deg, ridges > 8 px, 35..90 px per cell), "
        "rasterises it with 8-connected one-pixel lines, fills tiny holes and thins it to minimal 8-connectivity; "
        "image preconditions are re-checked independently of forsys (single component, no 2x2 block, no removable "
        "simple pixel, enclosed 4-connected background regions = expected cells). Each image is parsed under drawn "
        "symmetries of the square (all 8 in the thorough tier), paddings and mirror_y, with ne in 3..9: cell count, "
        "border flags, pairs of cells with an internal interface, junction count and mesh consistency are compared "
        "with the Voronoi/pixel ground truth and across transformations. The shipped images are included "
        "(metamorphic part only). Non-trivial = image with >= 1 interior cell and >= 2 interior junctions; distinct = "
        "(image seed, cells, transformation list).")
ASSUMPTIONS = [
    "the generator covers junction pixel patterns produced by thinning straight-line rasters; images failing the "
    "stated preconditions are discarded and counted",
    "cells are matched to regions by the pixel under the centroid of the parsed cell's vertices (Voronoi cells are convex)",
]


@st.composite
def params(draw, tier):
    p = {"rseed": draw(st.integers(0, 2 ** 32 - 1)), "ncells": draw(st.integers(4, 60 if tier == "thorough" else 28)),
         "ne": draw(st.integers(3, 9)), "ragged": draw(st.sampled_from([0.0, 0.0, 0.25, 0.4])),
         # a brick tissue with two size populations (areas 1 : 6) instead of a Voronoi tissue
         "tissue_kind": draw(st.sampled_from(["voronoi"] * 6 + ["bricks2"]))}
    nt = 8 if tier == "thorough" else 3
    p["transforms"] = [{"sym": draw(st.integers(0, 7)), "pad": [draw(st.integers(0, 9)) for _ in range(4)],
                        "mirror_y": draw(st.booleans())} for _ in range(nt)]
    p["transforms"][0] = {"sym": 0, "pad": [0, 0, 0, 0], "mirror_y": False}
    if p["ncells"] <= 12 and draw(st.integers(0, 3)) == 0:
        # a small tissue in the corner of a large field of view: thousands of empty rows or columns around it
        k = draw(st.integers(0, 3))
        p["transforms"][-1]["pad"][k] = draw(st.sampled_from([4100, 4500]))
    return p


def parse(arr, tr, ne, tmpdir, labels=None, outside=None):
    """Apply the transformation to the image (and to the label image), parse, resample, build the frame."""
    import forsys as fs
    a = raster.pad(raster.apply_symmetry(arr, tr["sym"]), *tr["pad"])
    fn = os.path.join(tmpdir, "img.tif")
    raster.save(a, fn)
    sk = call(fs.skeleton.Skeleton, fn, mirror_y=tr["mirror_y"])
    v, e, c = call(sk.create_lattice)
    probs = mesh_problems(v, e, c)
    if probs:
        return {"error": ("mesh-consistency-after-parse", probs[:3])}
    v, e, c, _ = call(fs.virtual_edges.generate_mesh, v, e, c, ne=ne)
    probs = mesh_problems(v, e, c)
    if probs:
        return {"error": ("mesh-consistency-after-resampling", probs[:3])}
    frame = call(fs.frames.Frame, 0, v, e, c, time=0)
    # the frame's interfaces are exactly the junction-to-junction chains of the resampled mesh (independent walk)
    from .. import refdecomp
    ref_paths, _ = refdecomp.reference_interfaces(v, e, c)
    got_paths = [refdecomp.canon([int(x) for x in pth]) for pth in frame.big_edges_list]
    if sorted(got_paths) != sorted(refdecomp.canon(q) for q in ref_paths):
        return {"error": ("frame-interfaces-differ-from-mesh-chains",
                          [f"{len(got_paths)} interfaces listed, {len(ref_paths)} junction-to-junction chains in the mesh"])}
    out = {"n_cells": len(c), "frame": frame, "cells": c, "vertices": v, "edges": e}
    deg = {}
    for ed in e.values():
        deg[ed.v1.id] = deg.get(ed.v1.id, 0) + 1
        deg[ed.v2.id] = deg.get(ed.v2.id, 0) + 1
    out["n_junctions"] = sum(1 for d in deg.values() if d >= 3)
    out["border"] = {cid for cid, cell in c.items() if cell.is_border}
    pairs = set()
    for be in frame.internal_big_edges:
        pairs.add(frozenset(be.own_cells))
    out["pairs"] = pairs
    if labels is not None:
        lab = raster.pad(raster.apply_symmetry(labels, tr["sym"]), *tr["pad"])[1:-1, 1:-1]
        cropped = a[1:-1, 1:-1]
        max_y = int(np.nonzero(cropped.any(axis=1))[0].max())
        region = {}
        for cid, cell in c.items():
            cx = float(np.mean([vv.x for vv in cell.vertices]))
            cy = float(np.mean([vv.y for vv in cell.vertices]))
            if tr["mirror_y"]:
                cy = max_y - cy
            iy, ix = int(round(cy)), int(round(cx))
            if not (0 <= iy < lab.shape[0] and 0 <= ix < lab.shape[1]):
                # coordinates in another frame than the pixel grid: the statement is about topology, so the cells are
                # then compared up to relabelling instead of being matched to regions by position
                region = None
                break
            region[cid] = int(lab[iy, ix])
        out["region"] = region
    return out


def degree_signature(n, pairs, border):
    """Relabelling-invariant fingerprint of (cells, internal-adjacency, border flags)."""
    deg = {}
    for pr in pairs:
        for x in pr:
            deg[x] = deg.get(x, 0) + 1
    return sorted((deg.get(c, 0), c in border) for c in n)


def check_image(p, ctx):
    img = raster.make_image(p["rseed"], p["ncells"], p.get("ragged", 0.0), kind=p.get("tissue_kind", "voronoi"))
    if img is None:
        ctx.skip("image preconditions not met (discarded)")
        return
    if p.get("ragged"):
        ctx.count("ragged-outline")
    t = img["tissue"]
    arr = img["array"]
    H, W = arr.shape
    labels_full = np.zeros((H, W), dtype=np.int32)
    labels_full[1:-1, 1:-1] = img["labels"]
    cell_of_region = {r: c for c, r in img["region_of_cell"].items()}
    # ---- ground truth from the model
    nint1 = {ri: 1 for ri in range(len(t.ridges))}
    internal, _ = t.classify_ridges(nint1)
    exp_pairs = {frozenset((t.ridges[ri].left, t.ridges[ri].right)) for ri in internal}
    exp_border = {c for c in t.cells if any(len(t.ridge_cells(ri)) == 1 for ri, _ in t.cells[c])}
    exp_junctions = sum(1 for j, rs in t.junction_ridges().items() if len(rs) >= 3)
    caj = t.cells_at_junction()
    b2b = sum(1 for r in t.ridges if r.left is not None and r.right is not None and
              len(caj_ := t.cells_at_junction()) and len(caj_[r.a]) < 3 and len(caj_[r.b]) < 3)
    if b2b:
        ctx.count("has-border-to-border-interface")
    interior_cells = len(t.cells) - len(exp_border)
    interior_junctions = sum(1 for j in t.J if len(caj[j]) >= 3)
    tmpdir = tempfile.mkdtemp(prefix="c15_")
    try:
        sigs = []
        for k, tr in enumerate(p["transforms"]):
            ctx.count("parses")
            try:
                o = parse(arr, tr, p["ne"], tmpdir, labels=labels_full, outside=img["outside"])
            except ForsysCrash as cr:
                return ctx.violation(f"crash:{cr.kind}@{cr.where}", p, observed=str(cr), expected="a parsed tissue",
                                     detail={"transform": tr})
            if "error" in o:
                return ctx.violation(o["error"][0], p, observed=o["error"][1], expected="consistent mesh",
                                     detail={"transform": tr})
            if o["n_cells"] != len(t.cells):
                return ctx.violation("cell-count", p, observed=o["n_cells"], expected=len(t.cells), detail={"transform": tr})
            reg = o["region"]
            if reg is None:
                ctx.count("cells-not-matchable-by-position(compared up to relabelling)")
                got_sig = degree_signature(list(o["cells"]), o["pairs"], o["border"])
                exp_sig = degree_signature(list(t.cells), exp_pairs, exp_border)
                if got_sig != exp_sig or o["n_junctions"] != exp_junctions:
                    return ctx.violation("topology-differs(up to relabelling)", p,
                                         observed={"cells": o["n_cells"], "border": len(o["border"]), "pairs": len(o["pairs"]),
                                                   "junctions": o["n_junctions"]},
                                         expected={"cells": len(t.cells), "border": len(exp_border), "pairs": len(exp_pairs),
                                                   "junctions": exp_junctions}, detail={"transform": tr})
                sigs.append((o["n_cells"], o["n_junctions"], len(o["pairs"]), len(o["border"])))
                continue
            if sorted(reg.values()) != sorted(cell_of_region):
                return ctx.violation("cells-vs-regions", p, observed=sorted(reg.values())[:10],
                                     expected=sorted(cell_of_region)[:10], detail={"transform": tr})
            tc = {cid: cell_of_region[r] for cid, r in reg.items()}
            got_border = {tc[c] for c in o["border"]}
            if got_border != exp_border:
                return ctx.violation("border-cells", p, observed=sorted(got_border ^ exp_border), expected="no difference",
                                     detail={"transform": tr})
            got_pairs = {frozenset(tc[c] for c in pr) for pr in o["pairs"]}
            if got_pairs != exp_pairs:
                return ctx.violation("internal-interface-pairs", p,
                                     observed={"extra": sorted(map(sorted, got_pairs - exp_pairs))[:4],
                                               "missing": sorted(map(sorted, exp_pairs - got_pairs))[:4]},
                                     expected="same pairs", detail={"transform": tr})
            if o["n_junctions"] != exp_junctions:
                return ctx.violation("junction-count", p, observed=o["n_junctions"], expected=exp_junctions,
                                     detail={"transform": tr})
            sigs.append((o["n_cells"], o["n_junctions"], len(o["pairs"]), len(o["border"])))
        if len(set(sigs)) != 1:
            return ctx.violation("not-invariant-under-symmetry", p, observed=sigs, expected="identical")
        ctx.count("sym:" + ",".join(str(tr["sym"]) for tr in p["transforms"][1:2]))
        if any(tr["mirror_y"] for tr in p["transforms"]):
            ctx.count("with-mirror_y")
        if interior_cells >= 1 and interior_junctions >= 2:
            ctx.mark_nontrivial({"rseed": p["rseed"], "ncells": p["ncells"], "tr": p["transforms"], "ne": p["ne"]})
            ctx.sample({"params": p, "cells": len(t.cells), "shape": list(arr.shape), "junctions": exp_junctions,
                        "internal_pairs": len(exp_pairs)})
    finally:
        shutil.rmtree(tmpdir, ignore_errors=True)


def check_shipped(p, ctx):
    """Metamorphic part on a shipped skeleton: same counts / adjacency signature under every transformation."""
    from PIL import Image
    fn = os.path.join(fixtures.DATA, p["image"])
    with Image.open(fn).convert("L") as im:
        arr = np.array(im)
    tmpdir = tempfile.mkdtemp(prefix="c15s_")
    try:
        base = None
        for sym in p["syms"]:
            for mirror in (False, True):
                tr = {"sym": sym, "pad": p["pad"] if sym % 2 else [0, 0, 0, 0], "mirror_y": mirror}
                ctx.count("parses-shipped")
                try:
                    o = parse(arr, tr, p["ne"], tmpdir)
                except ForsysCrash as cr:
                    return ctx.violation(f"crash-shipped:{cr.kind}@{cr.where}", p, observed=str(cr), expected="parsed",
                                         detail={"transform": tr}, kind="shipped")
                if "error" in o:
                    return ctx.violation(o["error"][0] + "-shipped", p, observed=o["error"][1], expected="consistent",
                                         detail={"transform": tr}, kind="shipped")
                sig = (o["n_cells"], o["n_junctions"], len(o["pairs"]), len(o["border"]),
                       tuple(degree_signature(list(o["cells"]), o["pairs"], o["border"])))
                if base is None:
                    base = sig
                elif sig != base:
                    return ctx.violation("shipped-not-invariant", p, observed=list(sig[:4]), expected=list(base[:4]),
                                         detail={"transform": tr}, kind="shipped")
        ctx.mark_nontrivial(p)
    finally:
        shutil.rmtree(tmpdir, ignore_errors=True)


def run_serial(ctx):
    syms = [0, 1, 4, 6] if ctx.tier == "quick" else list(range(8))
    for image in ("test_nonzero.tif", "experimental/exp_1.tif"):
        ctx.evaluations += 1
        run_case(ctx, check_shipped, {"image": image, "syms": syms, "pad": [3, 0, 5, 2], "ne": 6}, "shipped")


def run(ctx):
    drive(ctx, params(ctx.tier), check_image, ctx.budget(quick=30, thorough=70), label="image")


CASES = {"image": check_image, "shipped": check_shipped}
