"""C03 - dynamic inference recovers tensions from junction velocities."""
import cmath
import math

import numpy as np
from hypothesis import strategies as st

from .. import gen, infer, series
from .. import core
from ..core import call, drive
from ..tissue import PRNG

PROP = "C03"
RULE = ("Hypothesis draws an arc/line tissue (non-equilibrium geometry allowed), a positive tension vector of mean one "
        "(log-uniform spread up to 6x), a series of 2..5 frames with arbitrary increasing time stamps in which the "
        "junctions of the inferred frame move by dt * (resultant of the drawn tensions along the analytic tangents) "
        "to the next frame (from the previous one for the last frame), other frames moving arbitrarily inside the "
        "tracking bounds; every frame is renumbered independently; method in {default, lsq, lsq_linear}; inference at "
        "first / middle / last frame. Reported tensions are compared with the drawn ones. Non-trivial = >= 3 used "
        "junctions, tension spread >= 1.5x, renumbered frames; distinct = fingerprint of drawn parameters.")
ASSUMPTIONS = [
    "tolerance = 3 x the deviation caused by the admissible coefficient noise and by the 3-decimal rounding of the "
    "velocity term (5e-4 per entry, worst case through the pseudo-inverse of the analytic system) + 1e-6; lmfit / "
    "lsq_linear floors 1e-3 / 3e-4; cases with tolerance > 0.05 are skipped and counted",
    "rotation is moved by construction off the known-finding class D1; rank-deficient augmented systems are skipped",
    "displacements are kept within 30% of the tracking bound so that C12's guarantee applies (tracking is asserted first)",
]


@st.composite
def params(draw, tier):
    p = draw(gen.tissue_params(kinds=("voronoi", "moebius", "moebius"), max_cells=22, min_cells=9, allow_sub=False,
                               n_int_max=12, pose=True, labels=False))
    if p["pose"].get("rot_mode") == "snapchord":
        p["pose"]["rot_mode"] = "zero"
    p["pose"]["logscale"] = draw(st.sampled_from([0.0, 0.0, 1.0, -1.0]))
    p["n_frames"] = draw(st.integers(2, 5))
    p["target"] = draw(st.sampled_from(["first", "middle", "last"]))
    p["tseed"] = draw(st.integers(0, 2 ** 32 - 1))
    p["spread"] = draw(st.sampled_from([1.5, 3.0, 6.0]))
    p["frac"] = draw(st.floats(0.08, 0.3))
    p["t0"] = draw(st.sampled_from([0.0, 10.0, -3.0]))
    p["dt_factors"] = [draw(st.sampled_from([1.0, 0.5, 2.0, 3.0])) for _ in range(p["n_frames"] - 1)]
    p["lab_seeds"] = [draw(st.integers(0, 2 ** 32 - 1)) for _ in range(p["n_frames"])]
    p["method"] = draw(st.sampled_from([None, None, "lsq", "lsq_linear"]))
    p["fit"] = draw(st.sampled_from(["dlite", "taubinSVD"]))
    p["noise_geom"] = draw(st.sampled_from([0.0, 0.05, 0.15]))
    # far from equilibrium: a third of the junctions pushed back along one of their interfaces until all three
    # interfaces leave inside one half-plane (reflex corner in the opposite cell)
    p["distort"] = draw(st.sampled_from([None, None, draw(st.integers(0, 2 ** 32 - 1))]))
    return p


def check_case(p, ctx):
    import forsys as fs
    t0 = gen.build_base(p)
    nint = gen.n_int_func(t0, p)
    rng = PRNG(p["tseed"])
    # non-equilibrium geometry: move junctions a little, keep exact arcs
    if p["noise_geom"] > 0:
        js_all = sorted(t0.J)
        sp = series.min_spacing(t0, js_all)
        J = {j: z + complex(*rng.normal(size=2)) * p["noise_geom"] * sp * 0.3 for j, z in t0.J.items()}
        t0 = series.moved(t0, J)
    if p.get("distort") is not None:
        from .c07 import _simple
        rng2 = PRNG(p["distort"])
        J = dict(t0.J)
        moved_n = 0
        for j, rs in sorted(t0.junction_ridges().items()):
            if len(rs) >= 3 and rng2.uniform() < 0.35:
                ri = rs[int(rng2.integers(0, len(rs)))]
                J[j] = t0.J[j] - 0.6 * min(abs(t0.J[t0.ridges[r].a] - t0.J[t0.ridges[r].b]) for r in rs) * t0.tangent(ri, j)
                moved_n += 1
        t_d = series.moved(t0, J)
        ok = True
        for c in t_d.cells:
            toks = t_d.cell_polygon(c, lambda k_: nint[k_])
            pts = [t_d.J[tok[1]] if tok[0] == "J" else t_d.points(tok[1], nint[tok[1]])[tok[2]] for tok in toks]
            if not _simple(pts):
                ok = False
                break
        if ok and moved_n:
            t0 = t_d
            ctx.count("junctions-with-all-interfaces-in-a-half-plane")
    q = dict(p["pose"])
    s = 10.0 ** q.get("logscale", 0.0)
    t1 = t0.similarity(scale=s, reflect=bool(q.get("reflect")))
    cols, rows, at, amb = infer.structure(t1, nint)
    if len(rows) < 3 or amb:
        ctx.count("trivial:<3 junction rows")
        return
    # drawn tensions (mean one over the inferred interfaces)
    T = np.exp(rng.uniform(0, math.log(p["spread"]), size=len(cols)))
    T = T / T.mean()
    # D1-free rotation chosen by construction (chords of the unresampled mesh)
    angle = gen.pose_angle(t1, q, nint)
    used_ends = [(ri, j) for j in rows for ri in at[j]]
    chords = {(ri, j): t1.chord_dir(ri, j, nint[ri]) for (ri, j) in used_ends}
    bad = [e for e in used_ends if infer.straddle_err(t1.tangent(*e) * cmath.exp(1j * angle),
                                                       chords[e] * cmath.exp(1j * angle)) > 1e-9]
    if bad:
        phi = infer.free_angle(t1, used_ends, chords, (angle / (math.pi / 2)) % 1.0, pad=2e-3)
        if phi is None:
            ctx.exclude_known("D1")
            return
        angle = phi + (math.pi / 2) * int(angle // (math.pi / 2))
        ctx.count("rotation-moved-off-D1")
    ext = t1.extent()
    tk = t1.similarity(angle=angle, shift=complex(*q["shift"]) * ext)
    # resultant force on the used junctions of the target frame
    F = {}
    cidx = {ri: k for k, ri in enumerate(cols)}
    for j in rows:
        F[j] = sum(T[cidx[ri]] * tk.tangent(ri, j) for ri in at[j])
    fmax = max(abs(v) for v in F.values())
    if fmax < 1e-3:
        ctx.skip("no motion (equilibrium with the drawn tensions)")
        return
    js = series.junction_set(tk, nint)
    sp = series.min_spacing(tk, js)
    mc = series.maxcoord(tk, tk, js)
    bound = min(sp / 2, 0.08 * mc)
    dt_k = p["frac"] * bound / fmax
    n = p["n_frames"]
    k = {"first": 0, "middle": (n - 1) // 2, "last": n - 1}[p["target"]]
    if p["target"] == "middle" and n < 3:
        k = 0
    tissues = {k: tk}
    # time stamps
    dts = [dt_k * f for f in p["dt_factors"]]
    pair = (k, k + 1) if k < n - 1 else (k - 1, k)
    dts[pair[0]] = dt_k
    times = [p["t0"]]
    for d in dts:
        times.append(times[-1] + d)
    # the tied neighbour frame
    if k < n - 1:
        J = dict(tk.J)
        for j in rows:
            J[j] = tk.J[j] + dt_k * F[j]
        tissues[k + 1] = series.moved(tk, J)
    else:
        J = dict(tk.J)
        for j in rows:
            J[j] = tk.J[j] - dt_k * F[j]
        tissues[k - 1] = series.moved(tk, J)
    # the other frames move arbitrarily (small)
    for m in range(n):
        if m in tissues:
            continue
    idx = sorted(tissues)
    lo, hi = idx[0], idx[-1]
    for m in range(lo - 1, -1, -1):
        fld = series.displacement_field("random", tissues[m + 1], js, rng, 0.25 * bound)
        tissues[m] = series.moved(tissues[m + 1], {j: tissues[m + 1].J[j] + fld[j] for j in tissues[m + 1].J})
    for m in range(hi + 1, n):
        fld = series.displacement_field("random", tissues[m - 1], js, rng, 0.25 * bound)
        tissues[m] = series.moved(tissues[m - 1], {j: tissues[m - 1].J[j] + fld[j] for j in tissues[m - 1].J})
    # D1 must also be avoided on the actual (moved) neighbour? no: only the inferred frame's tangents enter.
    S = series.realise_series([tissues[m] for m in range(n)], nint, times, p["lab_seeds"], relabel=True)
    fsys = call(fs.ForSys, S.frames, cm=False)
    # tracking precondition (C12's business): assert first so that a tracking failure is not blamed on inference
    for m in range(n - 1):
        mp = core.mesh_of(fsys).mapping.get(m)
        if mp is None or any(mp.get(S.vid(m, j)) != S.vid(m + 1, j) for j in js):
            ctx.skip("tracking did not follow ground truth (reported under C12)")
            return
    # analytic system of frame k
    A = infer.true_matrix(tk, cols, rows, at)
    b_top = np.zeros(2 * len(rows))
    for r_i, j in enumerate(rows):
        b_top[2 * r_i] = F[j].real
        b_top[2 * r_i + 1] = F[j].imag
    M, b = infer.augment(A, b_top)
    if not infer.full_column_rank(M, 1e-6):
        ctx.skip("augmented system rank deficient")
        return
    # half of the cases build with the documented default limit (pi), which excludes nothing on these tissues: no
    # junction of an arc / line tissue in general position has two exactly antiparallel interface directions
    kw_b = {"circle_fit_method": p["fit"]}
    if p["tseed"] % 2 == 0:
        kw_b["angle_limit"] = np.inf
    else:
        ctx.count("built-with-default-angle-limit")
    call(fsys.build_force_matrix, when=k, **kw_b)
    fm = fsys.force_matrices[k]
    try:
        A_obs = infer.observed_matrix(fm, S.R[k], cols, rows)
    except infer.StructureMismatch as e:
        return ctx.violation("structure", p, observed=str(e), expected="rows/columns of the inferred frame")
    Eps = infer.eps_matrix(tk, nint, cols, rows, at, p["fit"])
    dA = np.abs(A_obs - A)
    if np.any(dA > Eps + 1e-15):
        i, kk = np.unravel_index(np.argmax(dA - Eps), dA.shape)
        return ctx.violation("coefficient", p, observed=float(A_obs[i, kk]), expected=float(A[i, kk]),
                             detail={"junction": rows[i // 2], "ridge": cols[kk]})
    x_true = np.append(T, 0.0)
    # the velocity term is rounded to 3 decimals (5e-4 per entry)
    tol, rel = infer.propagated_tolerance(A, A_obs, x_true, b_top=b_top, db=np.full(2 * len(rows), 5e-4))
    if rel > 0.05 or tol > 0.05:
        ctx.skip("conditioning: tolerance > 0.05")
        return
    if p["method"] == "lsq":
        tol = max(tol, 1e-3)
    if p["method"] == "lsq_linear":
        # this back-end rounds A^T b (not b) to 3 decimals and solves the bordered normal equations: propagate the
        # 5e-4 per entry through the inverse of that system
        n_c = len(cols)
        K = np.zeros((n_c + 1, n_c + 1))
        K[:n_c, :n_c] = A.T @ A
        K[:n_c, n_c] = 1.0
        K[n_c, :n_c] = 1.0
        with np.errstate(all="ignore"):
            Pk = np.linalg.pinv(K)
        extra_k = float(np.max(np.abs(Pk[:n_c, :n_c]) @ np.full(n_c, 5e-4)))
        sK = infer.svals(K)
        condK = float(sK[-1] / sK[0]) if sK[0] > 0 else 0.0
        tol = max(tol, 3e-4, 1e-7 / max(condK, 1e-9)) + 3.0 * extra_k
        if tol > 0.05:
            ctx.skip("conditioning: tolerance > 0.05")
            return
    kw = {"b_matrix": "velocity", "allow_negatives": False}
    if p["method"]:
        kw["method"] = p["method"]
    call(fsys.solve_stress, when=k, **kw)
    forces = fsys.forces[k]
    vals = [forces[i] for i in range(len(cols))]
    by = infer.tensions_by_ridge(S.frames[k], S.R[k], vals)
    worst = None
    for i, ri in enumerate(cols):
        if ri not in by:
            return ctx.violation("interface-missing", p, observed=sorted(map(str, by))[:8], expected=ri)
        err = abs(by[ri] - T[i])
        if err > tol and (worst is None or err > worst[0]):
            worst = (err, ri, float(by[ri]), float(T[i]))
    if worst:
        return ctx.violation("tension", p, observed=worst[2], expected=worst[3],
                             detail={"ridge": worst[1], "tol": tol, "target": p["target"], "k": k, "n": n,
                                     "method": p["method"], "dts": dts})
    errs = max(abs(by[ri] - T[i]) for i, ri in enumerate(cols))
    key = f"maxerr/tol:{p['method'] or 'default'}"
    ctx.classes[key] = max(ctx.classes.get(key, 0.0), float(errs / tol))
    ctx.count("target:" + p["target"])
    ctx.count("method:" + str(p["method"]))
    if len(set(p["dt_factors"])) > 1 and n > 2:
        ctx.count("unequal-dt")
    speeds = [abs(F[j]) for j in rows]
    if sum(1 for v in speeds if v > 0.05) >= 3 and T.max() / T.min() >= 1.5:
        ctx.mark_nontrivial(p)
        ctx.sample({"params": p, "E": len(cols), "J": len(rows), "tol": tol, "max_err": float(errs), "frame": k})


def run(ctx):
    drive(ctx, params(ctx.tier), check_case, ctx.budget(quick=200, thorough=500), label="series")


CASES = {"series": check_case}
