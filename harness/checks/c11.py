"""C11 - mesh resampling keeps junctions, topology and interface shape."""
import numpy as np
from hypothesis import strategies as st

from .. import gen, refdecomp, fixtures
from ..core import call, drive, run_case, ForsysCrash
from ..meshcheck import mesh_problems
from ..realise import realise

PROP = "C11"
RULE = ("Hypothesis draws a tissue / sub-tissue (pinches and holes allowed), 0..40 interior points per interface "
        "(short and long mixed), pose incl. negative coordinates, labelling, ne in 1..12 and replace_short_edges; the "
        "mesh is snapshotted, resampled, and compared: junction identity/position, surviving cells, adjacencies, "
        "interface-by-interface subsequence law (modulo the documented midpoint contraction), cell-cycle law, "
        "idempotence, consistency. Shipped SE dumps and skeletons are included. Non-trivial = at least one interface "
        "shortened and one left unchanged; distinct = fingerprint of drawn parameters.")
ASSUMPTIONS = [
    "reference interfaces come from the independent multigraph walk (refdecomp)",
    "contraction clause applies to isolated two-point border interfaces; meshes where two contractible interfaces "
    "share a vertex are known finding D21 with replace_short_edges=True (excluded by construction, counted)",
]


def snapshot(v, e, c):
    return {
        "pos": {vid: (x.x, x.y) for vid, x in v.items()},
        "cycles": {cid: [x.id for x in cell.vertices] for cid, cell in c.items()},
        "edges": sorted(tuple(sorted((ed.v1.id, ed.v2.id))) for ed in e.values()),
    }


def is_subsequence(small, big):
    it = iter(big)
    return all(any(x == y for y in it) for x in small)


def cyclic_subsequence(small, big):
    if not small:
        return True
    n = len(big)
    for s in range(n):
        if big[s] == small[0]:
            rot = big[s:] + big[:s]
            if is_subsequence(small, rot):
                return True
    return False


def collapse(seq, cyclic=False):
    out = []
    for x in seq:
        if not out or out[-1] != x:
            out.append(x)
    if cyclic and len(out) > 1 and out[0] == out[-1]:
        out.pop()
    return out


def contractible(paths, cov):
    return [p for p in paths if len(p) == 2 and len(cov.get(p[0], ())) < 3 and len(cov.get(p[1], ())) < 3]


def adjacency(cycles):
    by_edge, by_vertex = {}, {}
    for cid, cyc in cycles.items():
        for k in range(len(cyc)):
            by_edge.setdefault(frozenset((cyc[k], cyc[(k + 1) % len(cyc)])), set()).add(cid)
            by_vertex.setdefault(cyc[k], set()).add(cid)
    ea, va = set(), set()
    for s in by_edge.values():
        for a in s:
            for b in s:
                if a < b:
                    ea.add((a, b))
    for s in by_vertex.values():
        for a in s:
            for b in s:
                if a < b:
                    va.add((a, b))
    return ea, va


def check_mesh(ctx, p, v, e, c, ne, replace_short, label):
    import forsys.virtual_edges as fve
    paths0, info0 = refdecomp.reference_interfaces(v, e, c)
    cov0 = info0["cov"]
    snap0 = snapshot(v, e, c)
    contr = contractible(paths0, cov0) if (replace_short and True) else []
    # generate_mesh only contracts interfaces it leaves unresampled (len <= ne)
    contr = [q for q in contr if len(q) <= ne]
    if ne <= 2 and any(q[0] == q[-1] for q in paths0):
        # a closed interface (cell hanging on the tissue by one vertex) cannot be drawn with <= 2 segments
        ctx.skip("loop interface with ne <= 2: statement unsatisfiable")
        return None
    ends = [x for q in contr for x in q]
    if len(set(ends)) != len(ends):
        ctx.exclude_known("D21")
        ctx.count("excluded:D21-chained-contractions")
        return None
    try:
        # the documented default (replace_short_edges=True) is left out of the call in half of those cases
        kw_rs = {} if (replace_short and p.get("omit_default")) else {"replace_short_edges": replace_short}
        if ne == 4 and p.get("omit_default"):
            kw_rs = dict(kw_rs)
            kw_ne = {}
        else:
            kw_ne = {"ne": ne}
        v1, e1, c1, _ = call(fve.generate_mesh, v, e, c, **kw_ne, **kw_rs)
    except ForsysCrash as cr:
        ctx.violation(f"crash:{cr.kind}@{cr.where}", p, observed=str(cr), expected="a resampled mesh", kind=label)
        return None
    snap1 = snapshot(v1, e1, c1)
    probs = mesh_problems(v1, e1, c1)
    if probs:
        ctx.violation("mesh-consistency", p, observed=probs[:3], expected="consistent", kind=label)
        return None
    # merge map
    mu = {}
    for a, b in contr:
        (xa, ya), (xb, yb) = snap0["pos"][a], snap0["pos"][b]
        mid = ((xa + xb) / 2, (ya + yb) / 2)
        # the new vertex may reuse the id of a vertex that resampling removed
        cand = [vid for vid, pos in snap1["pos"].items() if pos == mid and snap0["pos"].get(vid) != mid]
        gone = lambda x: x not in snap1["pos"] or snap1["pos"][x] != snap0["pos"][x]
        if len(cand) != 1 or not gone(a) or not gone(b):
            near = [(vid, pos) for vid, pos in snap1["pos"].items() if snap0["pos"].get(vid) != pos][:3]
            ctx.violation("contraction-midpoint", p, observed={"new_vertices": near}, expected={"midpoint": mid},
                          detail={"interface": [a, b]}, kind=label)
            return None
        mu[a] = mu[b] = cand[0]
    f = lambda x: mu.get(x, x)
    # (a) junctions of >= 3 cells
    for vid, cs in cov0.items():
        if len(cs) >= 3 and info0["deg"].get(vid, 0) >= 3:
            if vid not in snap1["pos"] or snap1["pos"][vid] != snap0["pos"][vid]:
                ctx.violation("junction-moved-or-lost", p, observed=snap1["pos"].get(vid), expected=snap0["pos"][vid],
                              detail={"vid": vid}, kind=label)
                return None
    # (b) cells with a junction survive; adjacencies kept
    for cid in info0["cells_with_junction"]:
        if cid not in snap1["cycles"]:
            ctx.violation("cell-lost", p, observed="missing", expected=cid, kind=label)
            return None
    ea0, va0 = adjacency({cid: cyc for cid, cyc in snap0["cycles"].items() if cid in info0["cells_with_junction"]})
    ea1, va1 = adjacency(snap1["cycles"])
    # adjacency in the repository's own sense (cells sharing a vertex, cf. Cell.calculate_neighbors); a contracted
    # two-point interface between two cells legitimately turns a shared edge into a shared vertex
    if not va0 <= va1 or (not contr and not ea0 <= ea1):
        ctx.violation("adjacency-lost", p, observed=sorted((va0 - va1) | (set() if contr else ea0 - ea1))[:5],
                      expected="kept", kind=label)
        return None
    # (c) interface law
    paths1, info1 = refdecomp.reference_interfaces(v1, e1, c1)
    new = {}
    for q in paths1:
        new.setdefault(refdecomp.canon(q), 0)
        new[refdecomp.canon(q)] += 1
    shortened = unchanged = 0
    matched = set()
    contr_set = {refdecomp.canon(q) for q in contr}
    by_ends = {}
    for q in paths1:
        by_ends.setdefault(frozenset((q[0], q[-1])), []).append(q)
    for P in paths0:
        if refdecomp.canon(P) in contr_set:
            continue
        mP = collapse([f(x) for x in P])
        cands = []
        for q in by_ends.get(frozenset((mP[0], mP[-1])), []):
            for qq in (q, q[::-1]):
                if qq[0] == mP[0] and qq[-1] == mP[-1] and is_subsequence(qq, mP) and id(q) not in matched:
                    cands.append(q)
                    break
        # closed loops / parallel interfaces: choose the candidate sharing an interior vertex
        if len(cands) > 1:
            inter = [q for q in cands if set(q[1:-1]) & set(mP[1:-1])] or cands
            cands = inter[:1] if len(mP) > 2 else cands[:1]
        if len(cands) != 1:
            ctx.violation("interface-not-a-subsequence", p, observed={"candidates": len(cands)},
                          expected={"old": mP[:8], "len": len(mP)}, kind=label)
            return None
        q = cands[0]
        matched.add(id(q))
        if len(q) > ne + 1:
            ctx.violation("interface-too-long", p, observed=len(q), expected=f"<= {ne + 1}", kind=label)
            return None
        if len(mP) <= ne + 1:
            if len(q) != len(mP):
                ctx.violation("short-interface-changed", p, observed=q[:8], expected=mP[:8], kind=label)
                return None
            unchanged += 1
        else:
            shortened += 1
    if len(matched) != len(paths1):
        ctx.violation("interface-count", p, observed=len(paths1), expected=len(matched), kind=label)
        return None
    # (d) cell cycles
    for cid, cyc1 in snap1["cycles"].items():
        old = collapse([f(x) for x in snap0["cycles"][cid]], cyclic=True)
        if not cyclic_subsequence(cyc1, old):
            ctx.violation("cell-cycle-not-subsequence", p, observed=cyc1[:10], expected=old[:12],
                          detail={"cell": cid}, kind=label)
            return None
    # (e) idempotence -- not asserted when the resampled mesh has parallel mesh edges (two interfaces collapsed onto
    # the same vertex pair): interfaces are de-duplicated by vertex list, known finding D22
    if len(set(snap1["edges"])) != len(snap1["edges"]):
        ctx.known("D22")
        ctx.count("idempotence-not-asserted:D22-parallel-edges")
        return {"shortened": shortened, "unchanged": unchanged, "contracted": len(contr)}
    try:
        v2, e2, c2, _ = call(fve.generate_mesh, v1, e1, c1, **kw_ne, **kw_rs)
    except ForsysCrash as cr:
        ctx.violation(f"crash-second-pass:{cr.kind}@{cr.where}", p, observed=str(cr), expected="unchanged mesh", kind=label)
        return None
    snap2 = snapshot(v2, e2, c2)
    if snap2["pos"] != snap1["pos"] or snap2["cycles"] != snap1["cycles"] or snap2["edges"] != snap1["edges"]:
        what = "positions" if snap2["pos"] != snap1["pos"] else "cycles" if snap2["cycles"] != snap1["cycles"] else "edges"
        ctx.violation("not-idempotent", p, observed=what + " changed by a second resampling", expected="unchanged",
                      kind=label)
        return None
    probs = mesh_problems(v2, e2, c2)
    if probs:
        ctx.violation("mesh-consistency-second-pass", p, observed=probs[:3], expected="consistent", kind=label)
        return None
    return {"shortened": shortened, "unchanged": unchanged, "contracted": len(contr)}


@st.composite
def params(draw, tier):
    p = draw(gen.tissue_params(kinds=("voronoi", "moebius"), lattices=("hex", "square", "triborder"), max_cells=25,
                               min_cells=3, allow_sub=True, n_int_max=40, pose=True, labels=True))
    if p["kind"] == "triborder":
        # polygonal triangular border cell: its free side is a two-point interface whose contraction leaves two vertices
        p["sub"] = None
        p["seed"] = draw(st.integers(0, 2 ** 32 - 1))
        if draw(st.booleans()):
            p["n_int"] = {"mode": "const", "k": 0}
    # short + long mix
    if draw(st.booleans()):
        p["n_int"] = {"mode": "per", "lo": 0 if p["kind"] != "moebius" else 1, "hi": draw(st.integers(1, 40)),
                      "seed": draw(st.integers(0, 2 ** 32 - 1))}
    if p["kind"] not in ("moebius", "triborder") and draw(st.integers(0, 3)) == 0:
        # many two-point interfaces: several contractions in one mesh
        p["n_int"] = {"mode": "per", "lo": 0, "hi": draw(st.integers(0, 2)), "seed": draw(st.integers(0, 2 ** 32 - 1))}
    p["ne"] = draw(st.integers(1, 12))
    p["replace_short"] = draw(st.booleans())
    p["omit_default"] = draw(st.booleans())
    # a two-point interface on the tissue border whose two ends are the first and last entry of its cell's stored
    # list (the interface "closes" the list): the contraction then has to wrap around
    p["close_on_short"] = draw(st.one_of(st.none(), st.none(), st.integers(0, 10 ** 6)))
    return p


def check_case(p, ctx):
    t0 = gen.build_base(p)
    t = gen.apply_sub(t0, p, connected=False, no_pinch=False)
    nint = gen.n_int_func(t, p)
    t2, _ = gen.apply_pose(t, p.get("pose"), nint)
    lab = gen.lab_of(p)
    if p.get("close_on_short") is not None:
        border = [ri for ri, r in enumerate(t2.ridges) if r.c is None and (r.left is None) != (r.right is None)]
        if border:
            k = p["close_on_short"]
            ri = border[k % len(border)]
            r = t2.ridges[ri]
            nint = dict(nint)
            nint[ri] = 0
            lab.start_at = [r.left if r.left is not None else r.right, ["J", r.a if (k // 7) % 2 else r.b]]
            ctx.count("short-border-interface-closing-its-cell-list")
    R = realise(t2, nint, lab)
    res = check_mesh(ctx, p, R.vertices, R.edges, R.cells, p["ne"], p["replace_short"], "tissue")
    if res is None:
        return
    ctx.count("kind:" + p["kind"])
    ctx.count("contracted-interfaces", res["contracted"])
    if res["contracted"]:
        ctx.count("class:has-contraction")
    if res["shortened"] >= 1 and res["unchanged"] >= 1:
        ctx.mark_nontrivial(p)
        ctx.sample({"params": p, **res})


def check_fixture(p, ctx):
    import forsys as fs
    if p["fixture"].endswith(".dmp"):
        v, e, c = fixtures.se_mesh(p["fixture"])
    else:
        v, e, c = fixtures.skeleton_mesh(p["fixture"], resample=False)
    res = check_mesh(ctx, p, v, e, c, p["ne"], p.get("replace_short", True), "fixture")
    if res is not None:
        ctx.count("fixture-meshes")
        if res["shortened"] >= 1 and res["unchanged"] >= 1:
            ctx.mark_nontrivial(p)


def run_serial(ctx):
    fx = [{"fixture": "initial_furrow.dmp", "ne": 4}, {"fixture": "test_nonzero.tif", "ne": 6},
          {"fixture": "experimental/exp_1.tif", "ne": 6}]
    if ctx.tier == "thorough":
        fx += [{"fixture": "last_furrow.dmp", "ne": 2}, {"fixture": "experimental/exp_1.tif", "ne": 3},
               {"fixture": "test_nonzero.tif", "ne": 9, "replace_short": False},
               {"fixture": "12_12/step_20.dmp", "ne": 5}]
    for p in fx:
        ctx.evaluations += 1
        run_case(ctx, check_fixture, p, "fixture")


def run(ctx):
    n = ctx.budget(quick=450, thorough=1000)
    drive(ctx, params(ctx.tier), check_case, n, label="tissue")


CASES = {"tissue": check_case, "fixture": check_fixture}


def demo_D21():
    """Polygonal tissue border: two contractible two-point interfaces share a vertex."""
    import forsys.virtual_edges as fve
    p = {"kind": "hex", "nx": 4, "ny": 6, "n_int": {"mode": "const", "k": 0},
         "sub": {"frac": 0.7170652990309148, "seed": 944}}
    t = gen.apply_sub(gen.build_base(p), p, connected=True, no_pinch=True)
    R = realise(t, gen.n_int_func(t, p))
    try:
        call(fve.generate_mesh, R.vertices, R.edges, R.cells, ne=3)
    except ForsysCrash as c:
        return True, f"generate_mesh(ne=3) on a polygonal hexagonal sub-lattice raises {c.kind}"
    return False, "generate_mesh returned"


def demo_D22():
    """Two cells sharing one interface: with ne=1 all three interfaces collapse onto the same vertex pair."""
    import forsys.virtual_edges as fve
    p = {"kind": "voronoi", "mode": "uniform", "n_cells": 3, "seed": 0, "jitter": 0.05,
         "n_int": {"mode": "const", "k": 2}}
    t = gen.build_base(p)
    R = realise(t, gen.n_int_func(t, p))
    v1, e1, c1, _ = call(fve.generate_mesh, R.vertices, R.edges, R.cells, ne=1, replace_short_edges=False)
    n1 = len(e1)
    v2, e2, c2, _ = call(fve.generate_mesh, v1, e1, c1, ne=1, replace_short_edges=False)
    return len(e2) != n1, f"{n1} mesh edges after the first resampling with ne=1, {len(e2)} after the second"


def demonstrators():
    return {"D21": demo_D21, "D22": demo_D22}
