"""C13 - velocities are finite differences of tracked vertices over real elapsed time."""
import math

import numpy as np
from hypothesis import strategies as st

from .. import gen, series
from .. import core
from ..core import call, drive
from ..tissue import PRNG
from . import c12

PROP = "C13"
RULE = ("Series as in C12 (inside the tracking bounds) with arbitrary increasing time stamps (offset, unequal steps), "
        "independent renumbering per frame, plus a class in which one junction jumps beyond the search radius and is "
        "therefore untracked; calculate_velocity, the right-hand side built by set_velocity_matrix (b_matrix none / "
        "velocity, adimensional on/off, velocity_normalization drawn) and get_system_velocity_per_frame are compared "
        "with finite differences of the ground-truth positions. Non-trivial = unequal time steps and >= 3 used "
        "junctions with distinct velocities; distinct = fingerprint of drawn parameters.")
ASSUMPTIONS = [
    "ground truth successor = same physical junction in the next frame (previous frame at the last one)",
    "comparison tolerance 1e-9 relative to the largest velocity (pure float arithmetic; the 4-decimal rounded copies "
    "stored on the matrix object are not compared)",
]


@st.composite
def params(draw, tier):
    p = draw(c12.params(tier))
    if p["kind"] in ("voronoi", "moebius") and draw(st.integers(0, 5)) == 0:
        # a large tissue in which a single junction moves: one junction far faster than the mean junction speed
        p["n_cells"] = draw(st.integers(22, 30))
        p["sub"] = None
        p["steps"][0] = {"kind": "local", "frac": 0.6, "seed": draw(st.integers(0, 2 ** 32 - 1))}
    p["outside"] = False
    for s in p["steps"]:
        s["frac"] = min(s["frac"], 0.9)
    p["cm"] = False
    p["guess_frac"] = 0.0
    # also time stamps with a large offset against the frame interval (seconds since an epoch, a long recording)
    p["t0"] = draw(st.sampled_from([0.0, 3.5, -2.0, 100.0, 6.0e5, 1.7e9]))
    p["dts"] = [draw(st.sampled_from([1.0, 0.5, 2.0, 0.013, 7.0, 1e-3, 60.0])) for _ in range(p["n_frames"] - 1)]
    p["adim"] = draw(st.booleans())
    p["vnorm"] = draw(st.sampled_from([1, 1, 0.5, 3.0]))
    p["vanish"] = draw(st.sampled_from([False, False, True]))
    # time unit: the same movie with its time stamps in seconds instead of hours or days (junction speeds down to 1e-12)
    p["tunit"] = draw(st.sampled_from([1.0, 1.0, 1e4, 1e7]))
    p["blimit"] = draw(st.sampled_from([None, None, None, 0.68, 0.75, 0.85]))
    return p


def check_case(p, ctx):
    import forsys as fs
    S, js, nint = c12.build_series(p)
    n = len(S.frames)
    times = [p["t0"]]
    for dt in p["dts"]:
        times.append(times[-1] + dt * p.get("tunit", 1.0))
    vanished = None
    if p["vanish"]:
        # jump one junction by 0.10 * extent (beyond the 0.08 search radius) from frame 1 onwards; usable when nothing
        # else can be captured instead: every other successor stays out of v0's search radius and the jumped
        # successor is never nearer to another junction than that junction's own successor
        k = 0
        mc = series.maxcoord(S.T[k], S.T[k + 1], js)
        j = js[p["lab_seeds"][0] % len(js)]
        d = S.T[1].J[j] - S.T[1].centre()
        d = d / abs(d) if abs(d) > 0 else 1.0
        jump = 0.10 * mc * d
        z0 = S.T[0].J[j]
        s0 = S.T[1].J[j] + jump
        allz = [S.T[0].J[u] for u in js] + [S.T[1].J[u] for u in js if u != j] + [s0]
        mc2 = max(max(z.real for z in allz) - min(z.real for z in allz), max(z.imag for z in allz) - min(z.imag for z in allz))
        usable = abs(s0 - z0) > 0.0808 * mc2 and len(js) >= 3
        for u in js:
            if u == j:
                continue
            if abs(z0 - S.T[1].J[u]) <= 0.0808 * mc2 or abs(S.T[0].J[u] - s0) <= 1.01 * abs(S.T[0].J[u] - S.T[1].J[u]):
                usable = False
        if usable:
            tissues = []
            for kk in range(n):
                if kk == 0:
                    tissues.append(S.T[0])
                else:
                    J = dict(S.T[kk].J)
                    J[j] = J[j] + jump
                    tissues.append(series.moved(S.T[kk], J))
            S = series.realise_series(tissues, nint, times, p["lab_seeds"], relabel=p["relabel"])
            vanished = j
    if vanished is None:
        S = series.realise_series([S.T[k] for k in range(n)], nint, times, p["lab_seeds"], relabel=p["relabel"])
    fsys = call(fs.ForSys, S.frames, cm=False) if p["lab_seeds"][0] % 2 else call(fs.ForSys, S.frames)   # default: cm=False
    mesh = core.mesh_of(fsys)
    if any(mesh.mapping.get(k) is None for k in range(n - 1)):
        ctx.skip("frame pair declared too different (bounding box change after the jump)")
        return
    if vanished is not None:
        a = S.vid(0, vanished)
        if mesh.mapping[0].get(a) is not None:
            ctx.skip("jumped junction was still captured (not the untracked class)")
            return
        ctx.count("class:untracked-junction")
    # velocities are only specified relative to the tracked partner: the correspondence itself is C12's business, so
    # make sure it follows ground truth before blaming the velocity code (the jump can break C12's premises later on)
    for k in range(n - 1):
        for j in js:
            if vanished is not None and j == vanished and k == 0:
                continue
            if mesh.mapping[k].get(S.vid(k, j)) != S.vid(k + 1, j):
                ctx.skip("tracking did not follow ground truth (C12's premises not met after the jump)")
                return
    vmax = 0.0
    exp_v = {}
    for t in range(n):
        for j in js:
            if t < n - 1:
                v = (S.T[t + 1].J[j] - S.T[t].J[j]) / (times[t + 1] - times[t])
            else:
                v = (S.T[t - 1].J[j] - S.T[t].J[j]) / (times[t - 1] - times[t])
            if vanished is not None and j == vanished and (t == 0 or (t == 1 and n == 2)):
                v = 0j
            if vanished is not None and j == vanished and t == n - 1 and n == 2:
                v = 0j
            exp_v[(t, j)] = v
            vmax = max(vmax, abs(v))
    tol = 1e-9 * max(vmax, 1e-300)
    for (t, j), v in exp_v.items():
        if vanished is not None and j == vanished and t not in (0,) and not (n == 2):
            # later frames track the jumped junction normally again
            pass
        got = call(mesh.calculate_velocity, S.vid(t, j), t)
        g = complex(float(got[0]), float(got[1]))
        if abs(g - v) > tol:
            return ctx.violation("velocity", p, observed=[g.real, g.imag], expected=[v.real, v.imag],
                                 detail={"frame": t, "junction": j, "last": t == n - 1, "vanished": vanished == j})
    # right-hand sides
    zero_speed_frames = set()
    for t in range(n):
        if p.get("blimit"):
            # an opening-angle limit flags junctions; those that keep their equations keep their own velocity too
            call(fsys.build_force_matrix, when=t, angle_limit=float(p["blimit"]) * np.pi)
        elif p["lab_seeds"][-1] % 2:
            call(fsys.build_force_matrix, when=t, angle_limit=np.inf)
        else:
            call(fsys.build_force_matrix, when=t)          # documented default limit (pi): excludes nothing here
        fm = fsys.force_matrices[t]
        rows = dict(fm.map_vid_to_row)
        if not rows:
            continue
        # static mode: all zero
        b0, av0 = call(fm.set_velocity_matrix, mesh)
        if np.any(np.asarray(b0) != 0) or av0 != 1:
            return ctx.violation("static-rhs-not-zero", p, observed=float(np.abs(b0).max()), expected=0.0)
        used = []
        for vid, r0 in rows.items():
            j = S.jid(t, vid)
            used.append(exp_v[(t, j)])
        mean_speed = float(np.mean([abs(v) for v in used]))
        if mean_speed == 0.0:
            zero_speed_frames.add(t)       # division by a zero mean speed is undefined: not part of the statement
            ctx.count("frame-with-zero-mean-speed(adimensional clause undefined)")
            if p["adim"]:
                continue
        kw_v = {"adimensional_velocity": p["adim"], "velocity_normalization": p["vnorm"]}
        if p["vnorm"] == 1 and p["lab_seeds"][0] % 2:
            del kw_v["velocity_normalization"]         # documented defaults left out of the call
            if not p["adim"]:
                del kw_v["adimensional_velocity"]
        b, av = call(fm.set_velocity_matrix, mesh, b_matrix="velocity", **kw_v)
        b = np.asarray(b, float).flatten()
        scale = (1.0 / mean_speed if p["adim"] else 1.0) * p["vnorm"]
        if p["adim"] and abs(av - mean_speed) > 1e-9 * mean_speed:
            return ctx.violation("mean-speed", p, observed=float(av), expected=mean_speed, detail={"frame": t})
        if b.shape[0] != 2 * len(rows):
            return ctx.violation("rhs-shape", p, observed=int(b.shape[0]), expected=2 * len(rows))
        exp_b = np.zeros_like(b)
        for vid, r0 in rows.items():
            v = exp_v[(t, S.jid(t, vid))]
            exp_b[r0] = v.real * scale
            exp_b[r0 + 1] = v.imag * scale
        if np.max(np.abs(b - exp_b)) > 1e-9 * max(np.max(np.abs(exp_b)), 1e-300):
            k = int(np.argmax(np.abs(b - exp_b)))
            return ctx.violation("rhs-placement", p, observed=float(b[k]), expected=float(exp_b[k]),
                                 detail={"frame": t, "row": k, "adim": p["adim"], "vnorm": p["vnorm"]})
    if zero_speed_frames:
        return
    # get_system_velocity_per_frame builds every frame without limit: its premise (a non-zero mean speed) has to
    # hold for the junction rows of those unlimited builds, which may be more than the rows of a limited build above
    for t in range(n):
        call(fsys.build_force_matrix, when=t, angle_limit=np.inf)
        rows_u = dict(fsys.force_matrices[t].map_vid_to_row)
        if rows_u and float(np.mean([abs(exp_v[(t, S.jid(t, vid))]) for vid in rows_u])) == 0.0:
            ctx.count("frame-with-zero-mean-speed(adimensional clause undefined)")
            return
    sysv = call(fsys.get_system_velocity_per_frame)
    for t in range(n):
        rows = dict(fsys.force_matrices[t].map_vid_to_row)
        if not rows:
            continue
        mean_speed = float(np.mean([abs(exp_v[(t, S.jid(t, vid))]) for vid in rows]))
        if abs(sysv[t] - mean_speed) > 1e-9 * max(mean_speed, 1e-300):
            return ctx.violation("system-velocity", p, observed=float(sysv[t]), expected=mean_speed, detail={"frame": t})
    ctx.count("adim:" + str(p["adim"]))
    unequal = len(set(p["dts"])) > 1 or n == 2
    if len(set(p["dts"])) > 1:
        ctx.count("unequal-time-steps")
    nrows = len(fsys.force_matrices[0].map_vid_to_row)
    if nrows >= 3 and (len(set(p["dts"])) > 1 or p["dts"][0] != 1.0):
        ctx.mark_nontrivial(p)
        ctx.sample({"params": p, "junctions": len(js), "rows_frame0": nrows, "times": times})


def run(ctx):
    drive(ctx, params(ctx.tier), check_case, ctx.budget(quick=200, thorough=700), label="series")


CASES = {"series": check_case}
