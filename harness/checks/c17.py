"""C17 - myosin quantification is a normalised, linear window statistic of the image."""
import math
import os

import numpy as np
from hypothesis import strategies as st

from .. import gen
from ..core import call, drive
from ..realise import realise, make_frame
from ..tissue import PRNG

PROP = "C17"
RULE = ("Hypothesis draws an image (float32 mode F or 8-bit; random, gradient or uniform; 40..160 px), a list of "
        "interfaces (internal interfaces of a generated tissue placed inside the image by a drawn rescale/offset, or "
        "hand-built polylines: axis-aligned, diagonal, fractional slope), layers 0..3, integrate on/off, normalize "
        "None/'average', optionally a repeated interface; the returned intensities are compared with an independent "
        "numpy re-implementation (window median / distinct-pixel band sum) and with the linearity, uniform-image, "
        "normalisation and write-back laws. Non-trivial = >= 2 interfaces with different intensities; distinct = "
        "fingerprint of drawn parameters.")
ASSUMPTIONS = [
    "all windows stay inside the image and coordinates are positive (PIL's truncation of float coordinates is a floor)",
    "the band of the integrated mode is built as the statement's implementation does (ends at ceil, unit steps along "
    "the major axis, interpolated minor coordinate, window per step) but counted as a SET of integer pixels",
    "for a uniform image only the non-integrated intensities are required to be equal (the integrated value is "
    "c * N_band / length by the first sentence of the statement)",
]


@st.composite
def params(draw, tier):
    p = {"img_mode": draw(st.sampled_from(["F", "F", "L"])),
         # 'negative': a background-subtracted float channel whose values (and mean) are negative
         "img_kind": draw(st.sampled_from(["random", "random", "gradient", "uniform", "negative"])),
         "W": draw(st.integers(40, 160)), "H": draw(st.integers(40, 160)), "iseed": draw(st.integers(0, 2 ** 32 - 1)),
         "layers": draw(st.integers(0, 3)), "integrate": draw(st.booleans()),
         "normalize": draw(st.sampled_from([None, "average"])),
         "source": draw(st.sampled_from(["tissue", "tissue", "polylines"])),
         "repeat": draw(st.sampled_from([False, False, False, True])),
         "factor": draw(st.sampled_from([0.5, 2.0, 3.0])),
         # vertices moved in place after the interfaces were built (Frame.filter_edges, a manual correction): the
         # windows are centred on the vertices where they are now (non-integrated mode)
         "moved_after": draw(st.sampled_from([False, False, True]))}
    if p["source"] == "tissue":
        p["tissue"] = draw(gen.tissue_params(kinds=("voronoi", "moebius"), max_cells=12, min_cells=4, allow_sub=False,
                                             n_int_max=8, n_int_min=0, pose=False, labels=False))
        p["fill"] = draw(st.floats(0.5, 0.95))
        p["rescale_split"] = draw(st.sampled_from([1.0, 2.0, 0.37]))
        # anisotropic placement: own factor and own offset per axis
        p["rescale_y"] = draw(st.sampled_from([None, None, 1.0, 1.5, 0.6]))
        p["via_file"] = draw(st.sampled_from([False, False, True]))    # read_myosin(frame, path-of-a-TIFF, ...)
        p["offset_xy"] = [draw(st.integers(0, 6)) + draw(st.sampled_from([0.0, 0.25, 0.5])),
                          draw(st.integers(0, 6)) + draw(st.sampled_from([0.0, 0.25, 0.75]))]
    else:
        p["pseed"] = draw(st.integers(0, 2 ** 32 - 1))
        p["npoly"] = draw(st.integers(2, 6))
        p["omit_placement"] = draw(st.booleans())      # rescale / offset left at their defaults ([1, 1], [0, 0])
    return p


def make_image(p, factor=1.0):
    from PIL import Image
    rng = PRNG(p["iseed"])
    H, W = p["H"], p["W"]
    if p["img_kind"] == "random":
        a = rng.uniform(0, 200, size=(H, W))
    elif p["img_kind"] == "negative":
        a = rng.uniform(-200, -1, size=(H, W))
    elif p["img_kind"] == "gradient":
        yy, xx = np.mgrid[0:H, 0:W]
        a = 1.0 + 0.7 * xx + 0.3 * yy
    else:
        a = np.full((H, W), 37.0)
    if p["img_mode"] == "L" and factor == 1.0 and p["img_kind"] != "negative":
        arr = np.clip(np.floor(a), 0, 255).astype(np.uint8)
        return Image.fromarray(arr, mode="L"), arr.astype(np.float64)
    arr = (a * factor).astype(np.float32)
    return Image.fromarray(arr, mode="F"), arr.astype(np.float64)


def chain_big_edge(beid, pts, vid0):
    """BigEdge from a polyline (own vertices and mesh edges)."""
    import forsys.vertex as fv
    import forsys.edge as fe
    vs = [fv.Vertex(vid0 + k, float(x), float(y)) for k, (x, y) in enumerate(pts)]
    es = [fe.SmallEdge(vid0 + k, vs[k], vs[k + 1]) for k in range(len(vs) - 1)]
    be = call(fe.BigEdge, beid, vs)
    be._keep = es
    return be


def build_edges(p):
    """Returns (list of BigEdge, rescale, offset)."""
    build_edges.frame = None
    L = p["layers"]
    W, H = p["W"], p["H"]
    m = L + 3
    if p["source"] == "tissue":
        t = gen.build_base(p["tissue"])
        nint = gen.n_int_func(t, p["tissue"])
        zs = np.array(list(t.J.values()))
        # interior points of arcs may bulge out: use the realised vertices for the bounding box
        R = realise(t, nint)
        xs = np.array([v.x for v in R.vertices.values()])
        ys = np.array([v.y for v in R.vertices.values()])
        off = p.get("offset_xy") or [0.0, 0.25]
        sx = (W - 2 * m - 7) * p["fill"] / max(xs.max() - xs.min(), 1e-9)
        sy = (H - 2 * m - 7) * p["fill"] / max(ys.max() - ys.min(), 1e-9)
        s = min(sx, sy)
        # split the placement between the mesh coordinates and rescale/offset
        pre = p["rescale_split"]
        pre_y = p.get("rescale_y") or pre
        for v in R.vertices.values():
            v.x = (v.x - xs.min()) * s / pre
            v.y = (v.y - ys.min()) * s / pre_y
        frame = make_frame(R)
        edges = list(frame.internal_big_edges)
        build_edges.frame = frame
        return edges, [pre, pre_y], [float(m) + off[0], float(m) + off[1]]
    rng = PRNG(p["pseed"])
    edges = []
    vid = 0
    for k in range(p["npoly"]):
        kind = ["horizontal", "vertical", "diagonal", "fractional", "fractional", "curved"][int(rng.integers(0, 6))]
        n = int(rng.integers(2, 7))
        x0 = float(rng.uniform(m, W - m - 1))
        y0 = float(rng.uniform(m, H - m - 1))
        length = float(rng.uniform(5, min(W, H) / 2))
        if kind == "horizontal":
            d = (1.0, 0.0)
        elif kind == "vertical":
            d = (0.0, 1.0)
        elif kind == "diagonal":
            d = (math.sqrt(0.5), math.sqrt(0.5) * (1 if rng.uniform() < 0.5 else -1))
        else:
            a = float(rng.uniform(0, 2 * math.pi))
            d = (math.cos(a), math.sin(a))
        pts = []
        for i in range(n):
            s = length * i / (n - 1)
            bx = x0 + d[0] * s
            by = y0 + d[1] * s
            if kind == "curved":
                by += 3.0 * math.sin(math.pi * i / (n - 1))
            pts.append((min(max(bx, m), W - m - 1), min(max(by, m), H - m - 1)))
        if any(abs(pts[i][0] - pts[i + 1][0]) + abs(pts[i][1] - pts[i + 1][1]) == 0 for i in range(n - 1)):
            continue
        edges.append(chain_big_edge(k, pts, vid))
        vid += n + 1
    return edges, [1, 1], [0, 0]


def ref_window(arr, x, y, L):
    px, py = int(x), int(y)             # PIL truncates (positive coordinates)
    vals = []
    for ii in range(-L, L + 1):
        for kk in range(-L, L + 1):
            vals.append(arr[int(y + kk), int(x + ii)])
    return vals


def ref_intensity(arr, be, L, integrate, rescale, offset):
    xs = [v.x * rescale[0] + offset[0] for v in be.vertices]
    ys = [v.y * rescale[1] + offset[1] for v in be.vertices]
    if not integrate:
        return float(np.mean([np.median(ref_window(arr, x, y, L)) for x, y in zip(xs, ys)]))
    pix = set()
    length = 0.0
    for i in range(1, len(xs)):
        v0 = [math.ceil(xs[i - 1]), math.ceil(ys[i - 1])]
        v1 = [math.ceil(xs[i]), math.ceil(ys[i])]
        dx, dy = abs(v0[0] - v1[0]), abs(v0[1] - v1[1])
        axis = 0 if dx > dy else 1
        step = 1 if v0[axis] < v1[axis] else -1
        for value in range(v0[axis], v1[axis], step):
            tt = (value - v0[axis]) / (v1[axis] - v0[axis])
            other = v0[axis - 1] + tt * (v1[axis - 1] - v0[axis - 1])
            pos = (value, other) if axis == 0 else (other, value)
            for ii in range(-L, L + 1):
                for kk in range(-L, L + 1):
                    pix.add((int(pos[0] + ii), int(pos[1] + kk)))
        length += math.hypot(xs[i - 1] - xs[i], ys[i - 1] - ys[i])
    return float(sum(arr[yy, xx] for xx, yy in pix)) / length


def check_case(p, ctx):
    import forsys.myosin as fm
    edges, rescale, offset = build_edges(p)
    if len(edges) < 2:
        ctx.count("trivial:<2 interfaces")
        return
    if p["repeat"]:
        edges = edges + [edges[0]]
        ctx.count("class:repeated-interface")
    img, arr = make_image(p)
    if p.get("moved_after") and not p["integrate"]:
        seen = set()
        for be in edges:
            for v in be.vertices:
                if id(v) not in seen:
                    seen.add(id(v))
                    v.x += 1.0 / rescale[0]
                    v.y += 2.0 / rescale[1]
        ctx.count("vertices-moved-after-interfaces-were-built")
    kw = dict(rescale=rescale, offset=offset)
    if p.get("omit_placement") and rescale == [1, 1] and offset == [0, 0]:
        kw = {}
        ctx.count("placement-arguments-left-at-defaults")
    if p.get("via_file") and build_edges.frame is not None and not p["repeat"] and p["normalize"] == "average":
        # the documented entry point: the frame's internal interfaces, image read from a TIFF file
        import tempfile
        import shutil
        d = tempfile.mkdtemp(prefix="c17_")
        try:
            fn = os.path.join(d, "m.tif")
            img.save(fn)
            got = call(fm.read_myosin, build_edges.frame, fn, p["integrate"], layers=p["layers"], **kw)
        finally:
            shutil.rmtree(d, ignore_errors=True)
        ctx.count("through-read_myosin(file)")
    else:
        got = call(fm.get_intensities, edges, img, p["integrate"], p["normalize"], p["layers"], **kw)
    if p["iseed"] % 3 == 0 and not p.get("via_file"):
        got_again = call(fm.get_intensities, edges, img, p["integrate"], p["normalize"], p["layers"], **kw)
        if sorted(got_again) != sorted(got) or any(float(got_again[k_]) != float(got[k_]) for k_ in got):
            return ctx.violation("second-call-differs", p, observed=[float(got_again[k_]) for k_ in sorted(got_again)][:5],
                                 expected=[float(got[k_]) for k_ in sorted(got)][:5])
        ctx.count("quantified-twice")
    if sorted(got) != list(range(len(edges))):
        return ctx.violation("result-keys", p, observed=sorted(got)[:10], expected=f"0..{len(edges) - 1}")
    raw = [ref_intensity(arr, be, p["layers"], p["integrate"], rescale, offset) for be in edges]
    exp = list(raw)
    if p["normalize"] == "average":
        mean = float(np.mean(raw))
        if mean == 0:
            ctx.skip("zero mean intensity")
            return
        exp = [v / mean for v in raw]
    scale = max(max(abs(v) for v in exp), 1e-12)
    tol = 2e-5 * scale if p["img_mode"] == "F" else 1e-9 * scale       # float32 images: sums in different order
    for k in range(len(edges)):
        if abs(float(got[k]) - exp[k]) > tol:
            return ctx.violation("intensity", p, observed=float(got[k]), expected=exp[k],
                                 detail={"interface": k, "integrate": p["integrate"], "layers": p["layers"],
                                         "normalize": p["normalize"], "n_vertices": len(edges[k].vertices)})
        if abs(float(edges[k].gt) - float(got[k])) > 0:
            return ctx.violation("write-back-order", p, observed=float(edges[k].gt), expected=float(got[k]),
                                 detail={"interface": k})
    if p["normalize"] == "average" and abs(float(np.mean([got[k] for k in got])) - 1) > 1e-9:
        return ctx.violation("average-normalisation", p, observed=float(np.mean([got[k] for k in got])), expected=1.0)
    # linearity in the image (un-normalised)
    if p["img_mode"] == "F":
        img2, arr2 = make_image(p, p["factor"])
        g1 = call(fm.get_intensities, edges, img, p["integrate"], None, p["layers"], **kw)
        g2 = call(fm.get_intensities, edges, img2, p["integrate"], None, p["layers"], **kw)
        for k in range(len(edges)):
            if abs(float(g2[k]) - p["factor"] * float(g1[k])) > 2e-5 * max(abs(float(g2[k])), 1e-12):
                return ctx.violation("not-linear-in-image", p, observed=float(g2[k]), expected=p["factor"] * float(g1[k]))
    if p["img_kind"] == "uniform" and not p["integrate"]:
        vals = [float(got[k]) for k in got]
        if max(vals) - min(vals) > 1e-9 * max(abs(vals[0]), 1e-12):
            return ctx.violation("uniform-image", p, observed=[min(vals), max(vals)], expected="all equal")
    ctx.count("integrate:" + str(p["integrate"]))
    ctx.count("mode:" + p["img_mode"])
    ctx.count("source:" + p["source"])
    if len({round(v, 9) for v in raw}) >= 2:
        ctx.mark_nontrivial(p)
        ctx.sample({"params": p, "interfaces": len(edges), "first": exp[:3]})


def run(ctx):
    drive(ctx, params(ctx.tier), check_case, ctx.budget(quick=1000, thorough=3000), label="image")


CASES = {"image": check_case}
