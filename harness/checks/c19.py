"""C19 - tessellation lattices match the Voronoi diagram of the given centres."""
import math

import numpy as np
from hypothesis import strategies as st

from ..core import call, drive
from ..meshcheck import mesh_problems
from ..tissue import PRNG

PROP = "C19"
RULE = ("Hypothesis draws a centre set of 6..300 points (uniform random / jittered lattice with jitter 0, 1e-6, 1e-4..3e-4, 1e-3, "
        "0.1, 0.3 spacings / exactly square / exactly hexagonal), spacing 5..50 units, optional ring of helper centres, and "
        "max_distance from tight to infinite; forsys' lattice is compared with the bounded Voronoi regions (scipy), "
        "corner by corner after rounding to 3 decimals, plus equidistance, vertex/edge sharing, common orientation and "
        "mesh consistency. Non-trivial = >= 4 cells; distinct = fingerprint of the drawn parameters.")
ASSUMPTIONS = [
    "the Voronoi diagram itself is taken from scipy.spatial.Voronoi (qhull); corners that coincide after rounding to "
    "3 decimals are one corner (degenerate co-circular centres)",
    "spacing >= 5 units so that the 3-decimal rounding is far below ridge lengths (except exactly degenerate ones)",
]


@st.composite
def params(draw, tier):
    p = {"mode": draw(st.sampled_from(["uniform", "jitter", "jitter", "square", "hex"])),
         "n": draw(st.integers(6, 300 if tier == "thorough" else 90)),
         "seed": draw(st.integers(0, 2 ** 32 - 1)),
         # 1e-4..3e-4 spacings split the four-fold vertices of a lattice by about the rounding unit (0.001)
         "jitter": draw(st.sampled_from([0.0, 1e-6, 1e-4, 2e-4, 3e-4, 1e-3, 0.1, 0.3])),
         "spacing": draw(st.sampled_from([5.0, 10.0, 50.0, 7.3, 62.0])),
         "ring": draw(st.booleans()),
         # 'default': max_distance left out of the call (documented default 75 units)
         "maxd": draw(st.sampled_from(["inf", "inf", "loose", "tight", "default"])),
         "offset": [draw(st.integers(-50, 50)) * 1.0, draw(st.integers(-50, 50)) * 1.0],
         # the centre set shifted so that one Voronoi corner sits on the origin (coordinates rounding to +-0.000)
         "corner_at_origin": draw(st.sampled_from([None, None, None, draw(st.integers(0, 10 ** 6))]))}
    return p


def centres(p):
    rng = PRNG(p["seed"])
    n, s = p["n"], p["spacing"]
    side = max(3, int(math.ceil(math.sqrt(n))))
    if p["mode"] == "uniform":
        pts = rng.uniform(0, side * s, size=(n, 2))
    else:
        ii, jj = np.meshgrid(np.arange(side), np.arange(side))
        g = np.column_stack([ii.ravel(), jj.ravel()]).astype(float)[:max(n, 6)]
        if p["mode"] == "hex" or (p["mode"] == "jitter" and p["seed"] % 2):
            g[:, 0] += 0.5 * (g[:, 1].astype(int) % 2)
            g[:, 1] *= math.sqrt(3) / 2
        pts = g * s
        jit = 0.0 if p["mode"] in ("square", "hex") else p["jitter"]
        if jit:
            pts = pts + rng.uniform(-jit, jit, size=pts.shape) * s
    pts = pts + np.array(p["offset"])
    if p.get("corner_at_origin") is not None:
        from scipy.spatial import Voronoi
        with np.errstate(all="ignore"):
            vv = Voronoi(pts).vertices
        lo, hi = pts.min(axis=0), pts.max(axis=0)
        inner = [q for q in vv if np.all(q > lo) and np.all(q < hi)]
        if inner:
            pts = pts - inner[p["corner_at_origin"] % len(inner)]
    return [(float(x), float(y)) for x, y in pts]


def dedupe_cyc(cyc):
    out = []
    for q in cyc:
        if not out or out[-1] != q:
            out.append(q)
    while len(out) > 1 and out[0] == out[-1]:
        out.pop()
    return out


TIE = 1.01e-3      # numpy.around and Python round() break ties differently: corners may differ by one unit


def close(p, q):
    return abs(p[0] - q[0]) <= TIE and abs(p[1] - q[1]) <= TIE


def same_cycle(a, b):
    if len(a) != len(b):
        return False
    if not a:
        return True
    n = len(a)
    for seq in (b, b[::-1]):
        for s in range(n):
            if close(seq[s], a[0]) and all(close(seq[(s + k) % n], a[k]) for k in range(n)):
                return True
    return False


def check_case(p, ctx):
    import forsys as fs
    from scipy.spatial import Voronoi
    cen = centres(p)
    if p["ring"]:
        cen = cen + [(float(a), float(b)) for a, b in call(fs.tessellation.add_voronoi_centers, cen)]
    s = p["spacing"]
    maxd = {"inf": 1e9, "loose": 6 * s, "tight": 1.6 * s, "default": 75}[p["maxd"]]
    if p["maxd"] == "default":
        v, e, c = call(fs.tessellation.create_lattice_elements, cen)
    else:
        v, e, c = call(fs.tessellation.create_lattice_elements, cen, max_distance=maxd)
    V, E, C = call(fs.tessellation.create_lattice, v, e, c)
    if p["seed"] % 3 == 0:
        # a second lattice from the same element dictionaries (they are inputs, not scratch space)
        V, E, C = call(fs.tessellation.create_lattice, v, e, c)
        ctx.count("second-lattice-from-the-same-elements")
    with np.errstate(all="ignore"):
        vor = Voronoi(np.array(cen))
    # reference regions
    exp = []
    ambiguous = False
    for si, reg_i in enumerate(vor.point_region):
        reg = vor.regions[reg_i]
        if len(reg) == 0 or -1 in reg:
            continue
        P = vor.vertices[reg]
        diam = max(float(np.linalg.norm(a - b)) for a in P for b in P)
        if abs(diam - maxd) < 1e-6 * maxd:
            ambiguous = True
        if diam > maxd:
            continue
        cyc = dedupe_cyc([(round(float(x), 3), round(float(y), 3)) for x, y in P])
        if len(set(cyc)) != len(cyc):
            ambiguous = True       # non-adjacent corners coincide after rounding: outside the statement
        exp.append((si, cyc))
    if ambiguous:
        ctx.skip("region diameter on the cut-off or pathological rounding coincidence")
        return
    probs = mesh_problems(V, E, C)
    if probs:
        return ctx.violation("mesh-consistency", p, observed=probs[:3], expected="consistent")
    got = {cid: [(cell.vertices[k].x, cell.vertices[k].y) for k in range(len(cell.vertices))] for cid, cell in C.items()}
    if len(got) != len(exp):
        return ctx.violation("cell-count", p, observed=len(got), expected=len(exp))
    by_key = {}
    for cid, cyc in got.items():
        cx = sum(q[0] for q in cyc) / len(cyc)
        cy = sum(q[1] for q in cyc) / len(cyc)
        by_key.setdefault((len(cyc), math.floor(cx * 10), math.floor(cy * 10)), []).append(cid)
    cell_of_site = {}
    for si, cyc in exp:
        cx = sum(q[0] for q in cyc) / len(cyc)
        cy = sum(q[1] for q in cyc) / len(cyc)
        cands = []
        for dx in (-1, 0, 1):
            for dy in (-1, 0, 1):
                for cid in by_key.get((len(cyc), math.floor(cx * 10) + dx, math.floor(cy * 10) + dy), []):
                    if cid not in cands and same_cycle(got[cid], cyc):
                        cands.append(cid)
        if len(cands) != 1:
            return ctx.violation("region-without-cell", p, observed={"candidates": len(cands)},
                                 expected={"corners": cyc[:6]})
        cid = cands[0]
        if not same_cycle(got[cid], cyc):
            return ctx.violation("vertex-cycle", p, observed=got[cid][:8], expected=cyc[:8])
        if len({vv.id for vv in C[cid].vertices}) != len(cyc):
            return ctx.violation("repeated-corner", p, observed=[vv.id for vv in C[cid].vertices], expected=len(cyc))
        cell_of_site[si] = cid
    # equidistance of every vertex from its >= 3 nearest centres
    P = np.array(cen)
    for vid, vv in V.items():
        d = np.sort(np.hypot(P[:, 0] - vv.x, P[:, 1] - vv.y))
        if d[2] - d[0] > 3e-3:
            return ctx.violation("not-equidistant", p, observed=d[:3].tolist(), expected="three equal distances",
                                 detail={"vertex": [vv.x, vv.y]})
    # sharing: the two cells of a ridge hold the same vertex objects and one mesh edge joins them
    pair_edge = {}
    for eid, ed in E.items():
        pair_edge.setdefault(frozenset((ed.v1.id, ed.v2.id)), []).append(eid)
    shared = 0
    for (a, b), rv in zip(vor.ridge_points, vor.ridge_vertices):
        a, b = int(a), int(b)
        if a in cell_of_site and b in cell_of_site and -1 not in rv:
            q0 = tuple(round(float(x), 3) for x in vor.vertices[rv[0]])
            q1 = tuple(round(float(x), 3) for x in vor.vertices[rv[1]])
            if q0 == q1:
                continue
            ca, cb = C[cell_of_site[a]], C[cell_of_site[b]]
            def find(cell, q):
                exact = [x for x in cell.vertices if (x.x, x.y) == q]
                if len(exact) == 1:
                    return exact[0]
                hits = sorted((abs(x.x - q[0]) + abs(x.y - q[1]), k, x) for k, x in enumerate(cell.vertices)
                              if close((x.x, x.y), q))
                return hits[0][2] if hits else None
            a0, a1, b0, b1 = find(ca, q0), find(ca, q1), find(cb, q0), find(cb, q1)
            if a0 is None or a1 is None or a0 is not b0 or a1 is not b1:
                return ctx.violation("vertex-not-shared", p, observed=str((q0, q1)),
                                     expected="same Vertex objects in both cells")
            pe = pair_edge.get(frozenset((a0.id, a1.id)), [])
            if len(pe) != 1:
                return ctx.violation("edge-not-shared", p, observed=len(pe), expected=1, detail={"corner": [q0, q1]})
            shared += 1
    signs = {call(cell.get_area_sign) for cell in C.values()}
    if len(signs) > 1 or 0 in signs:
        return ctx.violation("orientation", p, observed=sorted(signs), expected="all cells in one rotational sense")
    ctx.count("mode:" + p["mode"])
    ctx.count("maxd:" + p["maxd"])
    ctx.count("shared-ridges", shared)
    axis = any(abs(x0 - x1) < 1e-9 or abs(y0 - y1) < 1e-9
               for cyc in got.values() for (x0, y0), (x1, y1) in zip(cyc, cyc[1:] + cyc[:1]))
    if axis:
        ctx.count("class:axis-parallel-ridge")
    if len(got) >= 4:
        ctx.mark_nontrivial(p)
        ctx.sample({"params": p, "cells": len(got), "vertices": len(V), "axis_parallel": axis})
    else:
        ctx.count("trivial:<4 cells")


def run(ctx):
    drive(ctx, params(ctx.tier), check_case, ctx.budget(quick=450, thorough=1200), label="centres")


CASES = {"centres": check_case}
