"""C09 - every construction or editing path yields a consistent vertex-edge-cell mesh."""
import gc
import os
import shutil
import tempfile

import numpy as np
from hypothesis import strategies as st

from .. import gen, refdecomp, se_writer, fixtures
from ..core import call, drive, run_case, ForsysCrash
from ..meshcheck import mesh_problems
from ..realise import realise
from ..tissue import PRNG
from . import c11

PROP = "C09"
RULE = ("Hypothesis draws a construction path (direct construction like the parsers / Surface Evolver dump written by "
        "the independent serialiser and parsed / WKT text parsed / Voronoi tessellation of random centres / shipped "
        "skeleton images, synthetic skeleton rasters; the lattice of a Skeleton object also requested a second time) and then an operation sequence of up to 6 steps from "
        "{generate_mesh(ne 2..12, replace_short_edges on/off), Frame construction (also repeated), gc.collect()}; "
        "after construction and after every step all back references are recomputed from scratch by object identity "
        "and compared. Non-trivial = sequence contains an editing step that removed or merged a vertex; distinct = "
        "fingerprint of (source parameters, operation list).")
ASSUMPTIONS = [
    "a documented rejection (SegmentationArtifactException) ends the sequence and is counted, not flagged",
    "chained contractions (known finding D21) are avoided by construction: such meshes are resampled with "
    "replace_short_edges=False",
]

OPS = st.one_of(
    st.fixed_dictionaries({"op": st.just("resample"), "ne": st.integers(2, 12), "replace_short": st.booleans()}),
    st.fixed_dictionaries({"op": st.just("frame")}),
    st.fixed_dictionaries({"op": st.just("gc")}),
)


@st.composite
def params(draw, tier):
    src = draw(st.sampled_from(["realise", "realise", "se", "wkt", "tess", "skeleton", "raster", "raster", "raster"]))
    p = {"source": src}
    if src in ("realise", "se", "wkt"):
        p.update(draw(gen.tissue_params(kinds=("voronoi", "moebius"), lattices=("hex", "square"), max_cells=20,
                                        min_cells=2, allow_sub=True, n_int_max=12, pose=(src == "realise"),
                                        labels=(src == "realise"))))
        p["wseed"] = draw(st.integers(0, 2 ** 32 - 1))
        if p["kind"] != "moebius" and draw(st.booleans()):
            # many two-point interfaces: the vertex-merging path of generate_mesh (replace_short_edges) runs
            p["n_int"] = {"mode": "per", "lo": 0, "hi": draw(st.integers(0, 2)), "seed": draw(st.integers(0, 2 ** 32 - 1))}
        if src == "realise":
            p["lab"]["shifts"] = True
    elif src == "tess":
        p["n"] = draw(st.integers(8, 60))
        p["seed"] = draw(st.integers(0, 2 ** 32 - 1))
        p["ring"] = draw(st.booleans())
    elif src == "skeleton":
        p["image"] = draw(st.sampled_from(["test_nonzero.tif", "experimental/exp_1.tif"]))
        p["mirror_y"] = draw(st.booleans())
        p["twice"] = draw(st.booleans())       # create_lattice called a second time on the same Skeleton object
    else:
        p["rseed"] = draw(st.integers(0, 2 ** 32 - 1))
        p["ncells"] = draw(st.integers(4, 14))
        p["sym"] = draw(st.integers(0, 7))
        p["twice"] = draw(st.booleans())
        # raw line raster: junction pixels are not minimal, the parser has to merge the corner artefacts
        p["raw"] = draw(st.booleans())
        # strongly irregular tissue: very short walls, near four-way contacts, neighbouring corner artefacts
        p["wild"] = draw(st.sampled_from([False, True, True]))
    p["ops"] = draw(st.lists(OPS, min_size=1, max_size=6))
    return p


def wkt_rows(t, nint):
    rows = []
    for cid in sorted(t.cells):
        toks = t.cell_polygon(cid, lambda ri: nint[ri])
        pts = []
        for tok in toks:
            if tok[0] == "J":
                z = t.J[tok[1]]
            else:
                z = t.points(tok[1], nint[tok[1]])[tok[2]]
            pts.append(z)
        pts.append(pts[0])
        rows.append("POLYGON ((" + ", ".join(f"{repr(float(z.real))} {repr(float(z.imag))}" for z in pts) + "))")
    return rows


def construct(p, tmpdir):
    import forsys as fs
    src = p["source"]
    if src in ("realise", "se", "wkt"):
        t0 = gen.build_base(p)
        t = gen.apply_sub(t0, p, connected=False, no_pinch=False)
        nint = gen.n_int_func(t, p)
        if src == "realise":
            t2, _ = gen.apply_pose(t, p.get("pose"), nint)
            R = realise(t2, nint, gen.lab_of(p))
            return R.vertices, R.edges, R.cells
        if src == "se":
            m = se_writer.model_from_tissue(t, nint, p["wseed"], orphans=p["wseed"] % 4)
            fn = os.path.join(tmpdir, "x.dmp")
            with open(fn, "w", newline="") as f:
                f.write(se_writer.write_dump(m, wrap=3 + p["wseed"] % 9))
            se = call(fs.surface_evolver.SurfaceEvolver, fn)
            return se.vertices, se.edges, se.cells
        rows = wkt_rows(t, nint)
        return call(fs.wkt.create_lattice, rows)
    if src == "tess":
        rng = PRNG(p["seed"])
        side = int(np.ceil(np.sqrt(p["n"])))
        pts = [(float(x), float(y)) for x, y in rng.uniform(0, side * 10.0, size=(p["n"], 2))]
        if p["ring"]:
            pts = pts + call(fs.tessellation.add_voronoi_centers, pts)
        v, e, c = call(fs.tessellation.create_lattice_elements, pts, max_distance=10.0 * side)
        return call(fs.tessellation.create_lattice, v, e, c)
    if src == "skeleton":
        sk = call(fs.skeleton.Skeleton, os.path.join(fixtures.DATA, p["image"]), mirror_y=p["mirror_y"])
        if p.get("twice"):
            call(sk.create_lattice)
        return call(sk.create_lattice)
    # synthetic raster
    from .. import raster
    img = raster.make_image(p["rseed"], p["ncells"], thinning=not p.get("raw"), wild=bool(p.get("wild")))
    if img is None:
        raise gen.Degenerate("raster preconditions not met")
    arr = raster.apply_symmetry(img["array"], p["sym"])
    fn = os.path.join(tmpdir, "s.tif")
    raster.save(arr, fn)
    sk = call(fs.skeleton.Skeleton, fn)
    if p.get("twice"):
        call(sk.create_lattice)
    return call(sk.create_lattice)


def check_case(p, ctx):
    import forsys as fs
    import forsys.virtual_edges as fve
    tmpdir = tempfile.mkdtemp(prefix="c09_")
    try:
        try:
            v, e, c = construct(p, tmpdir)
        except ForsysCrash as cr:
            if p["source"] == "raster" and p.get("raw") and p.get("wild") and cr.kind == "IndexError" and \
                    cr.where == "skeleton.py:create_lattice":
                # known finding D30: the merging of interior artefact triangles pairs up consecutive entries of its
                # candidate list and indexes an empty difference when they belong to different triangles
                ctx.known("D30")
                ctx.exclude_known("D30")
                return
            raise
        ctx.count("source:" + p["source"] + (":raw-raster" if p.get("raw") else "") + (":wild" if p.get("wild") else ""))
        probs = mesh_problems(v, e, c)
        if probs and p["source"] == "raster" and p.get("raw") and p.get("wild"):
            # same known finding D30 (clean-up of interior artefact triangles on raw, strongly irregular rasters): when
            # it does not raise it can leave a deleted vertex referenced by an edge
            ctx.known("D30")
            ctx.exclude_known("D30")
            return
        if probs:
            return ctx.violation("after-construction:" + p["source"], p, observed=probs[:3], expected="consistent mesh")
        edited = False
        frames = []
        for k, op in enumerate(p["ops"]):
            if op["op"] == "resample":
                nv = len(v)
                paths0, info0 = refdecomp.reference_interfaces(v, e, c)
                rs = op["replace_short"]
                contr = [q for q in c11.contractible(paths0, info0["cov"]) if len(q) <= op["ne"]]
                ends = [x for q in contr for x in q]
                if rs and len(set(ends)) != len(ends):
                    rs = False
                    ctx.exclude_known("D21")
                if any(q[0] == q[-1] for q in paths0) and op["ne"] <= 2:
                    ctx.skip("loop interface with ne <= 2")
                    break
                try:
                    v, e, c, _ = call(fve.generate_mesh, v, e, c, ne=op["ne"], replace_short_edges=rs)
                except ForsysCrash as cr:
                    if type(cr.exc).__name__ == "SegmentationArtifactException":
                        ctx.count("documented-rejection")
                        break
                    raise
                if len(v) < nv:
                    edited = True
            elif op["op"] == "frame":
                frames.append(call(fs.frames.Frame, len(frames), v, e, c, time=float(len(frames))))
            else:
                frames = frames[-1:]
                gc.collect()
            probs = mesh_problems(v, e, c)
            if probs:
                return ctx.violation(f"after-step-{k}:{op['op']}", p, observed=probs[:3], expected="consistent mesh",
                                     detail={"ops_done": p["ops"][:k + 1]})
        ctx.count("steps", len(p["ops"]))
        if edited:
            ctx.mark_nontrivial(p)
            ctx.sample({"source": p["source"], "ops": p["ops"], "vertices": len(v), "cells": len(c)})
    finally:
        shutil.rmtree(tmpdir, ignore_errors=True)


def run(ctx):
    drive(ctx, params(ctx.tier), check_case, ctx.budget(quick=200, thorough=500), label="path")


CASES = {"path": check_case}


def demo_D30():
    """A raw (unthinned) strongly irregular raster on which the interior-triangle merging of the skeleton parser raises."""
    import forsys as fs
    from .. import raster
    img = raster.make_image(131073, 6, thinning=False, wild=True)
    if img is None:
        return False, "demonstration image could not be generated"
    d = tempfile.mkdtemp(prefix="c09_")
    try:
        fn = os.path.join(d, "s.tif")
        raster.save(raster.apply_symmetry(img["array"], 7), fn)
        try:
            sk = call(fs.skeleton.Skeleton, fn)
            call(sk.create_lattice)
        except ForsysCrash as cr:
            if cr.kind == "IndexError" and cr.where == "skeleton.py:create_lattice":
                return True, "create_lattice raises IndexError (setdiff1d of two interfaces of different artefact triangles)"
            raise
    finally:
        shutil.rmtree(d, ignore_errors=True)
    return False, "the image parses"


def demonstrators():
    return {"D30": demo_D30}
