"""C16 - angle-limit exclusion drops exactly the flagged interfaces and solves the rest."""
import itertools
import math

import numpy as np
from hypothesis import strategies as st

from .. import gen, infer, series
from .. import core
from ..core import call, drive
from ..nnls_kkt import kkt_report, objective, reference_nnls
from ..realise import make_frame
from ..tissue import PRNG
from .c02 import real_straddle

PROP = "C16"
RULE = ("Hypothesis draws an arc/line tissue (equilibrium or with displaced junctions), an opening-angle limit in "
        "[0.5 pi, pi] or one of the defaults (pi through ForSys, inf through ForceMatrix), static or velocity mode, the "
        "default or the 'lsq' back-end with a fresh user-supplied initial condition; the flagged junctions are "
        "predicted from analytic tangents, the excluded set = internal interfaces with both ends flagged, and the "
        "result is checked position by position; the remaining values are judged by a KKT certificate on the "
        "restricted system rebuilt from an unlimited fresh matrix. Non-trivial = at least one but not all interfaces "
        "excluded and the excluded ones are not a suffix of the list; distinct = fingerprint of drawn parameters.")
ASSUMPTIONS = [
    "directions of internal interfaces come from the closed-form model; directions of external interfaces (chains of "
    "several arcs along the tissue border have no closed-form fitted tangent) are read from forsys itself",
    "cases in which some opening angle is within (coefficient tolerance + D1 error + 1e-6) of the limit are skipped",
    "exactly straight-through junctions are excluded from the 'default excludes nothing' clause",
]


@st.composite
def params(draw, tier):
    p = draw(gen.tissue_params(kinds=("voronoi", "moebius", "moebius", "moebius"), lattices=("square", "hex", "brick"),
                               max_cells=34, min_cells=10, allow_sub=True,
                               n_int_max=10, pose=True, labels=True))
    if p.get("sub") and draw(st.integers(0, 2)) > 0:
        p["sub"] = None
    if p["pose"].get("rot_mode") == "snapchord":
        p["pose"]["rot_mode"] = "zero"
    p["limit"] = draw(st.one_of(st.sampled_from(["default", "inf"]), st.floats(0.5, 1.0), st.floats(0.68, 0.95),
                              st.floats(0.72, 0.9), st.floats(0.75, 0.88)))
    p["noise"] = draw(st.sampled_from([0.0, 0.0, 0.1, 0.3]))
    if p["kind"] in ("square", "hex"):
        # four-fold (square) and regular three-fold junctions: displaced so that openings are generic
        p["noise"] = draw(st.sampled_from([0.1, 0.3, 0.5]))
    if p["kind"] == "brick":
        # exactly straight-through T-junctions (opening exactly pi): 'no limit' must still exclude nothing
        p["noise"] = 0.0
        p["limit"] = draw(st.sampled_from(["inf", "inf", "default", 0.8]))
        p["pose"]["rot_mode"] = "zero"
        p["n_int"] = {"mode": "const", "k": draw(st.integers(0, 3))}
    # rare junction types inside an ordinary tissue: one or two internal interfaces contracted into generic four-way
    # junctions; junctions whose interfaces all leave inside one half-plane (reflex cell corner)
    p["fourway"] = draw(st.sampled_from([0, 0, 1, 2])) if p["kind"] in ("voronoi", "moebius") else 0
    p["halfplane"] = draw(st.sampled_from([False, 0.6, 1.2, 1.2, 2.0])) if p["kind"] in ("voronoi", "moebius") else False
    if p["halfplane"] and p["halfplane"] > 1.0:
        p["limit"] = draw(st.floats(0.5, 0.67))          # narrow fans only matter for limits up to 2 pi / 3
    elif p["fourway"]:
        # some, not all, neighbours of the four-way junction flagged: a part of the junctions gets a wide (166 degree)
        # opening, the limit lies between that and the 120 degrees of ordinary triple junctions
        p["halfplane"] = 0.6
        p["limit"] = draw(st.floats(0.7, 0.9))
    p["nseed"] = draw(st.integers(0, 2 ** 32 - 1))
    p["rhs"] = draw(st.sampled_from(["static", "static", "velocity"]))
    p["method"] = draw(st.sampled_from([None, None, "lsq"]))
    p["x0"] = draw(st.sampled_from(["none", "ones", "random"]))
    p["fit"] = draw(st.sampled_from(["dlite", "taubinSVD"]))
    return p


def check_case(p, ctx):
    import forsys as fs
    import forsys.fmatrix as ffm
    t0 = gen.build_base(p)
    t0 = gen.apply_sub(t0, p, connected=True, no_pinch=True)
    nint = gen.n_int_func(t0, p)
    rng = PRNG(p["nseed"])
    for _ in range(p.get("fourway", 0)):
        cand = [ri for ri, r in enumerate(t0.ridges) if r.left is not None and r.right is not None]
        if not cand:
            break
        ri = cand[int(rng.integers(0, len(cand)))]
        jr = t0.junction_ridges()
        if len(jr[t0.ridges[ri].a]) != 3 or len(jr[t0.ridges[ri].b]) != 3:
            continue
        t_c = series.collapse_ridge(t0, ri)
        if t_c is not None:
            nint = {k2: nint[k] for k, k2 in zip([k for k in range(len(t0.ridges)) if k != ri], range(len(t_c.ridges)))}
            t0 = t_c
            ctx.count("interface-contracted-into-a-four-way-junction")
    if p.get("halfplane"):
        t_h, n_h = series.push_junctions_into_half_planes(t0, nint, p["nseed"] ^ 0x1234,
                                                          frac=0.35 if p.get("fourway") else 0.2,
                                                          push=float(p["halfplane"]))
        if t_h is not None and n_h:
            t0 = t_h
            ctx.count("junctions-with-all-interfaces-in-a-half-plane")
    if p["noise"] > 0:
        sp = series.min_spacing(t0, sorted(t0.J))
        t0 = series.moved(t0, {j: z + complex(*rng.normal(size=2)) * p["noise"] * sp * 0.3 for j, z in t0.J.items()})
    t, _ = gen.apply_pose(t0, p.get("pose"), nint)
    lab = gen.lab_of(p)
    from ..realise import realise
    R = realise(t, nint, lab)
    f0 = make_frame(R, 0, time=0.0)
    frames = {0: f0}
    if p["rhs"] == "velocity":
        R1 = realise(t, nint, lab)
        ext = t.extent()
        moved_by = {}
        for vid, v in R1.vertices.items():
            if R1.tok_of_vid[vid][0] == "J":
                d = rng.normal(size=2) * 0.004 * ext
                x0_, y0_ = v.x, v.y
                v.x += float(d[0])
                v.y += float(d[1])
                moved_by[vid] = (v.x - x0_, v.y - y0_)
        frames[1] = make_frame(R1, 1, time=1.0)
    fsys = call(fs.ForSys, frames, cm=False)
    internal_paths = [list(e) for e in f0.internal_big_edges_vertices]
    E = len(internal_paths)
    if E < 3:
        ctx.count("trivial:<3 internal interfaces")
        return
    col_ridge = []
    for path in internal_paths:
        rs = infer.ridge_of_path(R, path)
        col_ridge.append(next(iter(rs)) if len(rs) == 1 else None)
    # ---- predicted flags
    lim = {"default": math.pi, "inf": math.inf}.get(p["limit"], None)
    if lim is None:
        lim = float(p["limit"]) * math.pi
    ends = set()
    for path in internal_paths:
        ends.add(path[0])
        ends.add(path[-1])
    flagged = {}
    ambiguous = False
    for vid in ends:
        tok = R.tok_of_vid[vid]
        j = tok[1]
        dirs, unc = [], 0.0
        for beid in f0.vertices[vid].own_big_edges:
            be = f0.big_edges[beid]
            path = be.get_vertices_ids()
            rs = infer.ridge_of_path(R, path)
            single = len(rs) == 1 and {path[0], path[-1]} == {R.vid_of_tok[("J", t.ridges[next(iter(rs))].a)],
                                                            R.vid_of_tok[("J", t.ridges[next(iter(rs))].b)]}
            if single:
                ri = next(iter(rs))
                tg = t.tangent(ri, j)
                dirs.append(np.array([tg.real, tg.imag]))
                r = t.ridges[ri]
                unc += infer.eps_coef(r.theta if r.c is not None else 0.0, nint[ri] + 2, p["fit"]) * 2
                unc += real_straddle(t, R, ri, j)
            else:
                # chain of several arcs (tissue border): no closed-form fitted tangent -> read forsys' own direction
                v = call(be.get_versor_from_vertex, vid, fit_method=p["fit"])
                dirs.append(np.array([float(v[0]), float(v[1])]))
        angs = [math.acos(max(-1.0, min(1.0, float(np.dot(a, b))))) for a, b in itertools.combinations(dirs, 2)]
        mx = max(angs) if angs else 0.0
        # d(acos)/dx blows up near pi: convert the direction uncertainty into an angle uncertainty conservatively
        dang = 2 * math.sqrt(max(unc, 0.0)) + 2 * unc if mx > math.pi - 0.05 else 2 * unc
        if lim != math.inf and abs(mx - lim) < dang + 1e-6:
            ambiguous = True
        flagged[vid] = mx >= lim
    if ambiguous:
        ctx.skip("an opening angle is within the coefficient uncertainty of the limit")
        return
    exp_excl = [k for k, path in enumerate(internal_paths) if flagged[path[0]] and flagged[path[-1]]]
    for vid in ends:
        own = [k for k, path in enumerate(internal_paths) if vid in (path[0], path[-1])]
        kept = [k for k in own if k not in exp_excl]
        if len(own) >= 4 and 3 <= len(kept) < len(own):
            ctx.count("class:junction-of-4+-loses-some-interfaces-keeps>=3")
            break
    if p["limit"] in ("default", "inf") and exp_excl:
        # only possible with an exactly straight-through junction
        ctx.skip("exactly straight-through junction under the default limit")
        return
    # ---- run forsys
    kwb = dict(when=0, circle_fit_method=p["fit"])
    if p["limit"] == "inf":
        call(fsys.build_force_matrix, **dict(kwb, angle_limit=np.inf))
    elif p["limit"] == "default":
        call(fsys.build_force_matrix, **kwb)
    else:
        call(fsys.build_force_matrix, **dict(kwb, angle_limit=lim))
    fm = fsys.force_matrices[0]
    used = [list(e) for e in fm.big_edges_to_use]
    exp_used = [pth for k, pth in enumerate(internal_paths) if k not in exp_excl]
    if used != exp_used:
        got_excl = [k for k, pth in enumerate(internal_paths) if pth not in used]
        return ctx.violation("excluded-set", p, observed=got_excl[:12], expected=exp_excl[:12],
                             detail={"limit": lim, "E": E})
    if len(exp_excl) == E:
        ctx.count("all-excluded")
        return
    kw = {"allow_negatives": False}
    if p["method"]:
        kw["method"] = p["method"]
        if p["x0"] == "ones":
            kw["initial_condition"] = np.ones(E)
        elif p["x0"] == "random":
            kw["initial_condition"] = PRNG(p["nseed"] + 5).uniform(0.3, 2.0, size=E)
    if p["rhs"] == "velocity":
        kw["b_matrix"] = "velocity"
    if fm.matrix.shape[0] == 0:
        # no junction keeps three interfaces after the exclusion? then an unlimited matrix restricted to the remaining
        # columns has no such junction either
        R_f0 = realise(t, nint, lab)
        fresh0 = call(ffm.ForceMatrix, make_frame(R_f0, 0, time=0.0), "none", "none", {}, {}, np.inf, p["fit"])
        A0 = np.asarray(fresh0.matrix, float)
        keep0 = [k for k in range(E) if k not in exp_excl]
        left = [vid for vid, r0 in fresh0.map_vid_to_row.items()
                if A0.shape[1] == E and sum(1 for k in keep0 if A0[r0, k] != 0 or A0[r0 + 1, k] != 0) >= 3]
        if left:
            return ctx.violation("restricted-rows", p, observed=[], expected=sorted(left)[:10])
        ctx.count("trivial:no junction rows left")
        return
    call(fsys.solve_stress, when=0, **kw)
    forces = fsys.forces[0]
    if sorted(forces) != list(range(E)):
        return ctx.violation("result-length", p, observed=len(forces), expected=E)
    vals = np.array([forces[k] for k in range(E)], dtype=float)
    minus = [k for k in range(E) if vals[k] == -1]
    if minus != exp_excl:
        return ctx.violation("minus-one-positions", p, observed=minus[:12], expected=exp_excl[:12])
    # ---- restricted system from an unlimited fresh matrix
    # the frame's own lists must not have been edited by the limited build
    if [list(e) for e in f0.internal_big_edges_vertices] != internal_paths or \
            len(f0.internal_big_edges) != len(internal_paths):
        return ctx.violation("frame-interface-list-mutated", p, observed=len(f0.internal_big_edges_vertices),
                             expected=len(internal_paths))
    R_fresh = realise(t, nint, lab)
    f_fresh = make_frame(R_fresh, 0, time=0.0)
    fresh = call(ffm.ForceMatrix, f_fresh, "none", "none", {}, {}, np.inf, p["fit"])
    Afull = np.asarray(fresh.matrix, float)
    if Afull.shape[1] != E:
        # a fresh matrix without limit must have one column per internal interface, whatever was built before
        return ctx.violation("unlimited-fresh-matrix-columns", p, observed=int(Afull.shape[1]), expected=E)
    keep_cols = [k for k in range(E) if k not in exp_excl]
    rows_full = dict(fresh.map_vid_to_row)
    rows_now = dict(fm.map_vid_to_row)
    exp_rows = []
    for vid, r0 in rows_full.items():
        nz = sum(1 for k in keep_cols if Afull[r0, k] != 0 or Afull[r0 + 1, k] != 0)
        if nz >= 3:
            exp_rows.append(vid)
    if set(rows_now) != set(exp_rows):
        return ctx.violation("restricted-rows", p, observed=sorted(rows_now)[:10], expected=sorted(exp_rows)[:10])
    A = np.asarray(fm.matrix, float)
    for vid, r0 in rows_now.items():
        for kk, k in enumerate(keep_cols):
            for d in (0, 1):
                if abs(A[r0 + d, kk] - Afull[rows_full[vid] + d, k]) > 1e-9:
                    return ctx.violation("restricted-coefficient", p, observed=float(A[r0 + d, kk]),
                                         expected=float(Afull[rows_full[vid] + d, k]))
    rec = getattr(fm, "_verif_record", None)
    if rec is None:
        raise RuntimeError("hook record missing")
    b_top, _ = call(fm.set_velocity_matrix, fsys.mesh, **{k: v for k, v in kw.items() if k == "b_matrix"})
    if p["rhs"] == "velocity":
        # the velocity term of every remaining junction, flagged or not, is that junction's own finite difference
        # (same numbering in both frames, elapsed time 1)
        mp = core.mesh_of(fsys).mapping.get(0) or {}
        bt = np.asarray(b_top, float).flatten()
        if all(mp.get(vid) == vid for vid in rows_now):
            for vid, r0 in rows_now.items():
                ex, ey = moved_by[vid]
                if abs(bt[r0] - ex) > 1e-9 * ext + 1e-12 or abs(bt[r0 + 1] - ey) > 1e-9 * ext + 1e-12:
                    return ctx.violation("velocity-term-of-remaining-junction", p, observed=[float(bt[r0]), float(bt[r0 + 1])],
                                         expected=[ex, ey], detail={"flagged": bool(flagged.get(vid))})
            ctx.count("velocity-terms-checked-against-displacements")
    M_exp, b_exp = infer.augment(A, np.asarray(b_top, float).flatten())
    b_exp = b_exp.round(3)
    if rec["mprime"].shape != M_exp.shape or np.max(np.abs(rec["mprime"] - M_exp)) > 1e-12 or \
            np.max(np.abs(rec["b"] - b_exp)) > 1e-12:
        return ctx.violation("restricted-system", p, observed=list(rec["mprime"].shape), expected=list(M_exp.shape))
    rest = vals[keep_cols]
    if np.any(rest < 0) or not np.all(np.isfinite(rest)):
        return ctx.violation("remaining-values", p, observed=rest[:8].tolist(), expected="finite, non-negative")
    M, b = M_exp, b_exp
    lam = max(0.0, float(np.mean(b[:-1] - A @ rest))) if A.shape[0] else 0.0
    x_rep = np.append(rest, lam)
    x_ref = reference_nnls(M, b)
    if x_ref is None:
        ctx.skip("reference NNLS not certifiable")
        return
    f_ref, f_rep = objective(M, b, x_ref), objective(M, b, x_rep)
    bb = float(b @ b)
    if rec["path"] == "lsq":
        raw = rec["xres"]
        if bool(np.any((raw <= 1e-8) & (x_ref > 1e-6))):
            ctx.known("D27")
            ctx.exclude_known("D27")
            ctx.count("lsq-stuck-on-bound(D27)")
        elif f_rep - f_ref > 1e-3 * f_ref + 1e-7 * bb:
            return ctx.violation("restricted-not-optimal:lsq", p, observed=f_rep, expected=f_ref)
    else:
        ok, info = kkt_report(M, b, x_rep)
        if not ok and f_rep - f_ref > 1e-9 * max(f_ref, 1e-6 * bb):
            return ctx.violation("restricted-not-optimal", p, observed=f_rep, expected=f_ref, detail=info)
    # interface objects carry the values (unless excluded)
    for k, be in enumerate(f0.internal_big_edges):
        if k not in exp_excl and abs(be.tension - vals[k]) > 1e-12 * max(1.0, abs(vals[k])):
            return ctx.violation("interface-tension", p, observed=float(be.tension), expected=float(vals[k]))
    ctx.count("path:" + rec["path"])
    ctx.count("limit:" + ("default" if p["limit"] == "default" else "inf" if p["limit"] == "inf" else "drawn"))
    ctx.count("rhs:" + p["rhs"])
    if exp_excl:
        ctx.count("cases-with-exclusion")
    suffix = exp_excl == list(range(E - len(exp_excl), E))
    if 0 < len(exp_excl) < E and not suffix:
        ctx.mark_nontrivial(p)
        ctx.sample({"params": p, "E": E, "excluded": exp_excl[:10], "limit_over_pi": lim / math.pi})
    elif p["limit"] in ("default", "inf"):
        ctx.count("default-limit-excludes-nothing")


def run(ctx):
    drive(ctx, params(ctx.tier), check_case, ctx.budget(quick=700, thorough=1000), label="tissue")


CASES = {"tissue": check_case}
