"""C04 - pressure step: Young-Laplace equations with a zero-sum least-squares solution."""
import math

import numpy as np
from hypothesis import strategies as st

from .. import gen, infer
from ..core import call, drive
from ..realise import realise, make_frame, Labelling
from ..tissue import PRNG

PROP = "C04"
RULE = ("Hypothesis draws an arc/line tissue or sub-tissue (also with cells that have no internal interface), 1..15 "
        "interior points per interface, cells stored clockwise / counter-clockwise / mixed, a pose and a tension "
        "vector assigned directly to the interfaces (analytic, or random for the linearity clause); five sub-checks: "
        "(1) each equation = +-1 on the two cells with the centre-of-curvature cell on the positive side of a "
        "positive right-hand side, (2) turning estimate law, (3) independence of stored directions, (4) zero-sum "
        "least-squares solution, linearity (also after re-assigning tensions and rebuilding on the same object), zero "
        "for cells without interface, (5) correlation >= 0.9 with analytic "
        "Young-Laplace pressures on equilibrium Moebius tissues. Non-trivial = >= 4 cells with interfaces and an "
        "interface with turning >= 0.05; distinct = fingerprint of drawn parameters.")
ASSUMPTIONS = [
    "centre-of-curvature side, turning angle and analytic pressures come from the closed-form tissue model",
    "clause (5) is asserted only where the *ideal* solution of the stated equations (exact tensions and turning "
    "angles, own least squares) itself correlates >= 0.92 with Young-Laplace (else known finding D17, counted)",
    "turning-estimate law asserted for uniformly sampled arcs with true turning <= 1.5 rad",
]


@st.composite
def params(draw, tier):
    p = draw(gen.tissue_params(kinds=("voronoi", "moebius", "moebius", "moebius"), max_cells=30, min_cells=5,
                               allow_sub=True, n_int_max=15, n_int_min=1, pose=True, labels=True))
    if p["pose"].get("rot_mode") == "snapchord":
        p["pose"]["rot_mode"] = "uniform"
        p["pose"]["angle"] = 1.0
    p["tension_mode"] = draw(st.sampled_from(["analytic", "analytic", "random"]))
    p["tseed"] = draw(st.integers(0, 2 ** 32 - 1))
    p["flip2"] = draw(st.integers(0, 2 ** 32 - 1))
    p["scale2"] = draw(st.sampled_from([1e-3, 0.1, 7.0, 1e3]))
    # spacing of the sample points along each interface: uniform, or crowded towards one end (t -> t^2, t^0.5)
    p["tpow"] = draw(st.sampled_from([1.0, 1.0, 2.0, 0.5]))
    # arc tissues in which a drawn part of the internal interfaces is exactly straight (equation p_a - p_b = 0)
    p["straighten"] = draw(st.sampled_from([None, None, {"frac": draw(st.sampled_from([0.2, 0.5, 0.8])),
                                                         "seed": draw(st.integers(0, 2 ** 32 - 1))}]))
    return p


def straighten_some(t, nint, spec):
    """Replace a drawn subset of the internal arcs by their chords; None if a cell stops being a simple polygon."""
    from dataclasses import replace
    from .c07 import _simple
    rng = PRNG(spec["seed"])
    ridges = []
    n = 0
    for r in t.ridges:
        if r.c is not None and r.left is not None and r.right is not None and rng.uniform() < spec["frac"]:
            ridges.append(replace(r, c=None, theta=0.0))
            n += 1
        else:
            ridges.append(r)
    t2 = replace(t, ridges=ridges)
    for c in t2.cells:
        toks = t2.cell_polygon(c, lambda k: nint[k])
        pts = [t2.J[tok[1]] if tok[0] == "J" else t2.points(tok[1], nint[tok[1]])[tok[2]] for tok in toks]
        if not _simple(pts):
            return None, 0
    return t2, n


def setup(t, nint, lab, tensions):
    """Realise, build Frame, assign tensions per physical interface, build + solve the pressure system."""
    import forsys as fs
    R = realise(t, nint, lab)
    frame = make_frame(R)
    ridge_of = {}
    for k, be in enumerate(frame.internal_big_edges):
        rs = infer.ridge_of_path(R, be.get_vertices_ids())
        ri = next(iter(rs)) if len(rs) == 1 else None
        ridge_of[k] = ri
        be.tension = float(tensions[ri]) if ri is not None else 1.0
    fsys = call(fs.ForSys, {0: frame})
    call(fsys.build_pressure_matrix, when=0)
    pm = fsys.pressure_matrices[0]
    return R, frame, fsys, pm, ridge_of


def expanded(pm, ncells):
    """lhs re-expanded with the removed (all-zero) columns."""
    L = np.zeros((pm.lhs_matrix.shape[0], ncells))
    keep = [k for k in range(ncells) if k not in pm.removed_columns]
    L[:, keep] = pm.lhs_matrix
    return L


def equations(t, R, frame, pm, ridge_of):
    """{ridge: (cell_plus, cell_minus, rhs>=0)} in physical cell ids, sign-normalised; None + message on a malformed row."""
    ncells = len(frame.cells)
    L = expanded(pm, ncells)
    order = list(frame.cells)          # mapping_order follows dict order
    out = {}
    for k in range(L.shape[0]):
        nz = np.nonzero(L[k])[0]
        if len(nz) != 2 or sorted(L[k, nz].tolist()) != [-1.0, 1.0]:
            return None, f"row {k} is not +1/-1 on two cells: {L[k, nz].tolist()}"
        plus = order[int(nz[L[k, nz] > 0][0])]
        minus = order[int(nz[L[k, nz] < 0][0])]
        rhs = float(pm.rhs_matrix[k])
        if rhs < 0:
            plus, minus, rhs = minus, plus, -rhs
        out[ridge_of[k]] = (R.cell_of_cid[plus], R.cell_of_cid[minus], rhs)
    return out, None


def turning_floor(t, nint, ri):
    """Rounding floor (radians) of a discrete turning estimate on the generated points: the points of a nearly
    straight arc are computed from a far-away centre, so their own rounding error is ~ eps * max(|coordinate|, radius);
    second differences over a point spacing h amplify it by ~ n / h."""
    rr = t.ridges[ri]
    npts = nint[ri] + 2
    X = max(abs(t.J[rr.a]), abs(t.J[rr.b]))
    Rr = t.radius(ri) if rr.c is not None else 0.0
    h = t.length(ri) / (npts - 1)
    return 100 * npts * 2.3e-16 * max(X, Rr) / h


def check_case(p, ctx):
    t0 = gen.build_base(p)
    if p.get("tpow", 1.0) != 1.0:
        t0.meta["tpow"] = p["tpow"]
        ctx.count("non-uniform-sampling")
    t0 = gen.apply_sub(t0, p, connected=True, no_pinch=True)
    nint = gen.n_int_func(t0, p)
    t, _ = gen.apply_pose(t0, p.get("pose"), nint)
    mixed = False
    if p.get("straighten") and t.pole is not None:
        t_mixed, n_str = straighten_some(t, nint, p["straighten"])
        if t_mixed is not None and n_str:
            t, mixed = t_mixed, True
            ctx.count("mixed-straight-and-curved-internal-interfaces")
    internal, amb = t.classify_ridges(nint)
    if len(internal) < 2:
        ctx.count("trivial:<2 internal interfaces")
        return
    rng = PRNG(p["tseed"])
    if p["tension_mode"] == "analytic":
        T = {ri: t.ridges[ri].T for ri in range(len(t.ridges))}
    else:
        T = {ri: float(rng.uniform(0.2, 3.0)) for ri in range(len(t.ridges))}
    lab = gen.lab_of(p)
    R, frame, fsys, pm, ridge_of = setup(t, nint, lab, T)
    if sorted(x for x in ridge_of.values() if x is not None) != sorted(internal) or None in ridge_of.values():
        return ctx.violation("interfaces", p, observed=sorted(map(str, ridge_of.values()))[:8], expected=sorted(internal)[:8])
    eqs, msg = equations(t, R, frame, pm, ridge_of)
    if eqs is None:
        return ctx.violation("equation-shape", p, observed=msg, expected="+1/-1 on the interface's two cells")
    big_turn = False
    # ---- (1) + (2)
    for ri, (plus, minus, rhs) in eqs.items():
        r = t.ridges[ri]
        if {plus, minus} != {r.left, r.right}:
            return ctx.violation("equation-cells", p, observed=[plus, minus], expected=[r.left, r.right], detail={"ridge": ri})
        n = nint[ri] + 2
        theta = abs(r.theta) if r.c is not None else 0.0
        if theta == 0.0:
            if rhs > (1e-9 + 10 * turning_floor(t, nint, ri)) * max(T[ri], 1e-300):
                return ctx.violation("turning-straight", p, observed=rhs / T[ri], expected=0.0, detail={"ridge": ri})
            continue
        cs = t.centre_side_cell(ri)
        floor = turning_floor(t, nint, ri)
        if rhs > 10 * floor * T[ri] + 1e-12 * T[ri] and plus != cs:
            return ctx.violation("centre-of-curvature-side", p, observed=plus, expected=cs,
                                 detail={"ridge": ri, "theta": r.theta, "flipped": {str(k): v for k, v in R.flipped.items()}})
        if theta <= 1.5 and theta > 1e4 * floor and p.get("tpow", 1.0) == 1.0:
            ratio = (rhs / T[ri]) / (theta * (n - 2) / (n - 1))
            key = "turning-ratio-min"
            ctx.classes[key] = min(ctx.classes.get(key, 9.0), ratio)
            ctx.classes["turning-ratio-max"] = max(ctx.classes.get("turning-ratio-max", 0.0), ratio)
            if not (0.97 <= ratio <= 1.03):
                return ctx.violation("turning-estimate", p, observed=rhs / T[ri], expected=theta * (n - 2) / (n - 1),
                                     detail={"ridge": ri, "n": n, "theta": theta, "ratio": ratio})
        if theta >= 0.05:
            big_turn = True
    # ---- (2b) scale invariance of the turning estimate, (3) independence of the stored directions
    t_s = t.similarity(scale=p["scale2"])
    lab2 = Labelling(seed=p["flip2"], relabel_v=lab.relabel_v, relabel_e=lab.relabel_e, relabel_c=lab.relabel_c,
                     shifts=True, flips="mixed")
    for name, tt, ll in (("scaled", t_s, lab), ("other-orientations", t, lab2)):
        R2, frame2, fsys2, pm2, ridge_of2 = setup(tt, nint, ll, T)
        eq2, msg = equations(tt, R2, frame2, pm2, ridge_of2)
        if eq2 is None:
            return ctx.violation("equation-shape:" + name, p, observed=msg, expected="+1/-1 on two cells")
        if set(eq2) != set(eqs):
            return ctx.violation("equation-set-changed:" + name, p, observed=sorted(map(str, set(eq2) ^ set(eqs)))[:6],
                                 expected="one equation per internal interface in every realisation")
        for ri, (plus, minus, rhs) in eqs.items():
            p2, m2, rhs2 = eq2[ri]
            rr = t.ridges[ri]
            floor = max(turning_floor(t, nint, ri), turning_floor(tt, nint, ri))
            tolr = T[ri] * (floor + 1e-9 * abs(rr.theta)) + 1e-13
            if abs(rhs2 - rhs) > tolr or (rhs > 10 * tolr and (p2, m2) != (plus, minus)):
                return ctx.violation("equation-changed:" + name, p, observed=[p2, m2, rhs2], expected=[plus, minus, rhs],
                                     detail={"ridge": ri})
    # ---- (4) solution
    call(fsys.solve_pressure, when=0, method="lagrange_pressure")
    order = list(frame.cells)
    pres = np.array([frame.cells[c].pressure for c in order], dtype=float)
    if not np.all(np.isfinite(pres)):
        return ctx.violation("non-finite-pressure", p, observed=pres[:6].tolist(), expected="finite")
    L = expanded(pm, len(order))
    r = np.asarray(pm.rhs_matrix, float)
    has = np.any(L != 0, axis=0)
    # connected interface graph on the cells that have an interface?
    idx = [k for k in range(len(order)) if has[k]]
    parent = {k: k for k in idx}

    def find(a):
        while parent[a] != a:
            a = parent[a]
        return a

    for row in L:
        nz = np.nonzero(row)[0]
        parent[find(int(nz[0]))] = find(int(nz[1]))
    connected = len({find(k) for k in idx}) == 1
    for k in range(len(order)):
        if not has[k] and pres[k] != 0.0:
            return ctx.violation("cell-without-interface-nonzero", p, observed=float(pres[k]), expected=0.0)
    if not connected:
        ctx.count("interface-graph-disconnected(solution clause skipped)")
    else:
        with np.errstate(all="ignore"):
            p_ref = np.linalg.lstsq(L[:, idx], r, rcond=None)[0]
        scale = max(np.max(np.abs(p_ref)), np.max(np.abs(r)), 1e-300)
        if np.max(np.abs(pres[idx] - p_ref)) > 1e-7 * scale:
            k = int(np.argmax(np.abs(pres[idx] - p_ref)))
            return ctx.violation("not-least-squares", p, observed=float(pres[idx][k]), expected=float(p_ref[k]),
                                 detail={"cells_with_interface": len(idx)})
        if abs(pres[idx].sum()) > 1e-8 * scale * len(idx):
            return ctx.violation("not-zero-sum", p, observed=float(pres[idx].sum()), expected=0.0)
        # linearity: p(2*T1 + 3*T2) = 2 p(T1) + 3 p(T2)
        T2 = {ri: float(rng.uniform(0.2, 3.0)) for ri in T}
        Tc = {ri: 2.0 * T[ri] + 3.0 * T2[ri] for ri in T}
        res = []
        for TT in (T2, Tc):
            Rb, fb, fsb, pmb, _ = setup(t, nint, lab, TT)
            call(fsb.solve_pressure, when=0, method="lagrange_pressure")
            res.append(np.array([fb.cells[c].pressure for c in list(fb.cells)], dtype=float))
        lin = 2.0 * pres + 3.0 * res[0]
        if np.max(np.abs(res[1] - lin)) > 1e-7 * max(np.max(np.abs(lin)), 1e-300):
            return ctx.violation("not-linear-in-tensions", p, observed=res[1][:5].tolist(), expected=lin[:5].tolist())
        # the same object again after its interfaces received other tensions: equations are those of the new tensions
        for k, be in enumerate(frame.internal_big_edges):
            be.tension = float(Tc[ridge_of[k]])
        call(fsys.build_pressure_matrix, when=0)
        call(fsys.solve_pressure, when=0, method="lagrange_pressure")
        again = np.array([frame.cells[c].pressure for c in order], dtype=float)
        if np.max(np.abs(again - res[1])) > 1e-9 * np.max(np.abs(res[1])) + 1e-12 * max(Tc.values()):
            return ctx.violation("rebuilt-system-ignores-new-tensions", p, observed=again[:5].tolist(),
                                 expected=res[1][:5].tolist())
        ctx.count("solution+linearity-checked")
    # ---- (4b) the numeric type of the coordinates does not matter: pixel coordinates given as Python ints and the same
    # values given as floats yield the same equations
    if p["tseed"] % 3 == 0:
        hmin = math.inf
        for ri, r in enumerate(t.ridges):
            chain = [t.J[r.a]] + t.points(ri, nint[ri]) + [t.J[r.b]]      # actual (possibly non-uniform) sampling
            hmin = min(hmin, min(abs(chain[k + 1] - chain[k]) for k in range(len(chain) - 1)))
        t_px = t.similarity(scale=6.0 / hmin)
        rhs_by_type = []
        for as_int in (False, True):
            Rq = realise(t_px, nint, lab)
            for v in Rq.vertices.values():
                v.x, v.y = (int(round(v.x)), int(round(v.y))) if as_int else (float(round(v.x)), float(round(v.y)))
            if len({(v.x, v.y) for v in Rq.vertices.values()}) != len(Rq.vertices):
                rhs_by_type = None          # two vertices fell on one pixel: not a valid mesh any more
                break
            fq = make_frame(Rq)
            for be in fq.internal_big_edges:
                rs = infer.ridge_of_path(Rq, be.get_vertices_ids())
                be.tension = float(T[next(iter(rs))]) if len(rs) == 1 else 1.0
            import forsys as fs
            fsq = call(fs.ForSys, {0: fq})
            call(fsq.build_pressure_matrix, when=0)
            rhs_by_type.append(np.asarray(fsq.pressure_matrices[0].rhs_matrix, float))
        if rhs_by_type is None:
            ctx.count("integer-typed-coordinates:vertices-coincide-after-rounding(skipped)")
        elif rhs_by_type[0].shape != rhs_by_type[1].shape or \
                np.max(np.abs(rhs_by_type[0] - rhs_by_type[1])) > 1e-9 * max(np.max(np.abs(rhs_by_type[0])), 1e-300):
            k = int(np.argmax(np.abs(rhs_by_type[0] - rhs_by_type[1])))
            return ctx.violation("integer-typed-coordinates-change-the-equations", p, observed=float(rhs_by_type[1][k]),
                                 expected=float(rhs_by_type[0][k]), detail={"row": k})
        else:
            ctx.count("integer-typed-coordinates-compared")
    # ---- (5) physics
    if connected and p["tension_mode"] == "analytic":
        cells_i = [R.cell_of_cid[order[k]] for k in idx]
        if t.pole is None:
            # straight tissue: all pressures vanish
            floor_sum = sum(turning_floor(t, nint, ri) * T[ri] for ri in internal)
            if np.max(np.abs(pres)) > 1e-8 * max(T.values()) + 50 * floor_sum:
                return ctx.violation("straight-tissue-pressure", p, observed=float(np.max(np.abs(pres))), expected=0.0)
            ctx.count("physics:straight-all-zero")
        elif min(nint[ri] for ri in internal) >= 3 and len(idx) >= 6 and not p.get("sub") and p.get("tpow", 1.0) == 1.0 \
                and not mixed:
            p_an = np.array([t.pressure(c) for c in cells_i])
            # ideal solution of the stated equations: exact tensions, exact turning, own least squares
            Li = np.zeros((len(internal), len(idx)))
            ri_rows = []
            pos = {c: k for k, c in enumerate(cells_i)}
            for row, ri in enumerate(internal):
                rr = t.ridges[ri]
                cs = t.centre_side_cell(ri)
                other = rr.left if cs == rr.right else rr.right
                Li[row, pos[cs]] = 1
                Li[row, pos[other]] = -1
                ri_rows.append(T[ri] * abs(rr.theta))
            with np.errstate(all="ignore"):
                p_id = np.linalg.lstsq(Li, np.array(ri_rows), rcond=None)[0]
            r_ideal = float(np.corrcoef(p_id, p_an)[0, 1])
            r_got = float(np.corrcoef(pres[idx], p_an)[0, 1])
            ctx.classes["physics:min-correlation"] = min(ctx.classes.get("physics:min-correlation", 1.0), r_got)
            if r_ideal < 0.92:
                ctx.known("D17")
                ctx.exclude_known("D17")
                ctx.count("physics:ideal-solution-below-0.92(D17)")
            else:
                ctx.count("physics:correlation-checked")
                if r_got < 0.9:
                    return ctx.violation("young-laplace-correlation", p, observed=r_got, expected=">= 0.9",
                                         detail={"r_ideal": r_ideal, "cells": len(idx)})
    ctx.count("kind:" + p["kind"])
    ctx.count("flips:" + lab.flips)
    if len(idx) >= 4 and big_turn:
        ctx.mark_nontrivial(p)
        ctx.sample({"params": p, "cells_with_interface": len(idx), "interfaces": len(internal)})


@st.composite
def params_physics(draw, tier):
    """Whole equilibrium Moebius tissues sampled at >= 5 points per interface (clause 5)."""
    p = draw(gen.tissue_params(kinds=("moebius",), max_cells=40, min_cells=12, allow_sub=False, n_int_max=15,
                               n_int_min=3, pose=True, labels=True))
    if p["pose"].get("rot_mode") == "snapchord":
        p["pose"]["rot_mode"] = "zero"
    p["tension_mode"] = "analytic"
    p["tseed"] = draw(st.integers(0, 2 ** 32 - 1))
    p["flip2"] = draw(st.integers(0, 2 ** 32 - 1))
    p["scale2"] = draw(st.sampled_from([1e-3, 0.1, 7.0, 1e3]))
    return p


def run_serial(ctx):
    """Wheel tissues: a hub with 24 and with 135 neighbours (one cell taking part in more than 127 equations)."""
    from ..core import run_case
    for N, seed in ((24, 3), (135, 5)):
        p = {"kind": "wheel", "nx": N, "ny": 1, "seed": seed + int(ctx.seed), "n_int": {"mode": "const", "k": 3},
             "pose": {"rot_mode": "uniform", "angle": 0.3, "shift": [0.0, 0.0], "logscale": 0.0, "reflect": False},
             "lab": None, "tension_mode": "random", "tseed": 11 + int(ctx.seed), "flip2": 7, "scale2": 7.0, "tpow": 1.0,
             "straighten": None}
        ctx.evaluations += 1
        run_case(ctx, check_case, p, "tissue")
        ctx.count("wheel-tissue:%d" % N)


def run(ctx):
    drive(ctx, params(ctx.tier), check_case, ctx.budget(quick=140, thorough=700), label="tissue")
    drive(ctx, params_physics(ctx.tier), check_case, ctx.budget(quick=70, thorough=300), label="tissue", seed_offset=1)


CASES = {"tissue": check_case}


def demo_D17():
    """A Moebius tissue on which even the exact solution of the stated equations correlates < 0.92 with Young-Laplace."""
    for seed in range(400):
        p = {"kind": "moebius", "mode": "uniform", "n_cells": 14, "seed": 7000 + seed, "jitter": 0.3,
             "pole_logd": math.log(1.3), "pole_phi": 0.7 * seed, "n_int": {"mode": "const", "k": 5}}
        try:
            t = gen.build_base(p)
        except gen.Degenerate:
            continue
        nint = gen.n_int_func(t, p)
        internal, amb = t.classify_ridges(nint)
        cells = sorted({c for ri in internal for c in t.ridge_cells(ri)})
        if len(cells) < 6:
            continue
        pos = {c: k for k, c in enumerate(cells)}
        Li = np.zeros((len(internal), len(cells)))
        rhs = []
        for row, ri in enumerate(internal):
            rr = t.ridges[ri]
            cs = t.centre_side_cell(ri)
            other = rr.left if cs == rr.right else rr.right
            Li[row, pos[cs]] = 1
            Li[row, pos[other]] = -1
            rhs.append(rr.T * abs(rr.theta))
        with np.errstate(all="ignore"):
            p_id = np.linalg.lstsq(Li, np.array(rhs), rcond=None)[0]
        p_an = np.array([t.pressure(c) for c in cells])
        r = float(np.corrcoef(p_id, p_an)[0, 1])
        if r < 0.9:
            return True, f"seed {7000 + seed}: exact tensions and turning angles give correlation {r:.3f} < 0.9"
    return False, "no such tissue among 400"


def demonstrators():
    return {"D17": demo_D17}
