"""python -m harness.run <Cxx> [--tier quick|thorough] [--replay file] [--workers N]

Exit 0 = held on everything explored (KNOWN-FINDING lines possible); 1 = violation(s), each with a VIOLATION line;
2 = harness error (never reported as a violation).
"""
import argparse
import importlib
import json
import multiprocessing as mp
import os
import sys
import time
import traceback
import warnings


def _reexec_hashseed():
    """Fixed hash seed (set iteration order) and single-threaded BLAS (bit-reproducible linear algebra, and no
    oversubscription when the thorough tier runs many worker processes): both must be set before Python/numpy start."""
    want = {"PYTHONHASHSEED": "0", "OPENBLAS_NUM_THREADS": "1", "OMP_NUM_THREADS": "1", "MKL_NUM_THREADS": "1"}
    if any(os.environ.get(k) != v for k, v in want.items()):
        env = dict(os.environ, FORSYS_VERIF="1", **want)
        os.execve(sys.executable, [sys.executable, "-m", "harness.run"] + sys.argv[1:], env)


def _load(prop):
    return importlib.import_module(f"harness.checks.{prop.lower()}")


def _worker(args):
    prop, tier, seed, w = args
    from harness import core
    core.ensure_repo_first()
    warnings.simplefilter("ignore")
    mod = _load(prop)
    ctx = core.Ctx(prop, tier, seed * 1000 + w, worker=w)
    try:
        mod.run(ctx)
    except Exception:
        return {"error": traceback.format_exc()}
    return ctx.export()


def _line_coverage(path):
    """VERIF_COVER=<file>: record which lines of the forsys package under test execute during this run (sys.monitoring,
    each location reported once), merged into <file> as {relative file: [lines]}. Used by tools/auto_mutants.py."""
    import atexit
    mon = sys.monitoring
    tool = mon.COVERAGE_ID
    root = os.path.realpath(os.environ.get("FORSYS_REPO", "/repo")) + os.sep + "forsys" + os.sep
    hits = set()

    def on_line(code, line):
        fn = code.co_filename
        if fn.startswith(root):
            hits.add((fn[len(root):], line))
        return mon.DISABLE

    mon.use_tool_id(tool, "verif-cover")
    mon.register_callback(tool, mon.events.LINE, on_line)
    mon.set_events(tool, mon.events.LINE)

    def dump():
        data = {}
        if os.path.exists(path):
            try:
                with open(path) as f:
                    data = json.load(f)
            except Exception:
                data = {}
        for fn, ln in hits:
            data.setdefault(fn, [])
            if ln not in data[fn]:
                data[fn].append(ln)
        for fn in data:
            data[fn].sort()
        with open(path, "w") as f:
            json.dump(data, f)

    atexit.register(dump)


def main():
    _reexec_hashseed()
    os.environ["FORSYS_VERIF"] = "1"
    if os.environ.get("VERIF_COVER"):
        _line_coverage(os.environ["VERIF_COVER"])
    ap = argparse.ArgumentParser()
    ap.add_argument("prop")
    ap.add_argument("--tier", default=os.environ.get("VERIF_TIER", "quick"), choices=["quick", "thorough"])
    ap.add_argument("--replay")
    ap.add_argument("--workers", type=int, default=int(os.environ.get("VERIF_WORKERS", "14")))
    a = ap.parse_args()
    prop = a.prop.upper()
    seed = int(os.environ.get("VERIF_SEED", "1") or 1)
    sys.path.insert(0, os.path.dirname(os.path.dirname(os.path.abspath(__file__))))
    from harness import core
    try:
        core.ensure_repo_first()
        warnings.simplefilter("ignore")
        mod = _load(prop)
    except SystemExit:
        raise
    except Exception:
        traceback.print_exc()
        print("HARNESS-ERROR: import failure", flush=True)
        sys.exit(2)

    if a.replay:
        sys.exit(replay(mod, prop, a.replay))

    ctx = core.Ctx(prop, a.tier, seed)
    try:
        # 1. regression replays of fixed findings + saved shrunk failures (plain, no Hypothesis)
        reg_dir = os.path.join(core.VERIF, "regress", prop)
        if os.path.isdir(reg_dir):
            for fn in sorted(os.listdir(reg_dir)):
                if fn.endswith(".json"):
                    with open(os.path.join(reg_dir, fn)) as f:
                        rec = json.load(f)
                    ctx.evaluations += 1
                    ctx.count("regression-replay")
                    kind = rec.get("kind") or next(iter(mod.CASES))
                    core.run_case(ctx, mod.CASES[kind], rec["params"], kind)
        # 2. generated search
        if a.tier == "thorough" and getattr(mod, "PARALLEL", True) and a.workers > 1:
            if hasattr(mod, "run_serial"):
                mod.run_serial(ctx)
            with mp.get_context("fork").Pool(a.workers) as pool:
                res = pool.map(_worker, [(prop, a.tier, seed, w + 1) for w in range(a.workers)])
            for r in res:
                if "error" in r:
                    print(r["error"])
                    print("HARNESS-ERROR: worker failed", flush=True)
                    sys.exit(2)
                ctx.merge(r)
        else:
            if hasattr(mod, "run_serial"):
                mod.run_serial(ctx)
            mod.run(ctx)
    except Exception:
        traceback.print_exc()
        print("HARNESS-ERROR: exception in harness code (not a property violation)", flush=True)
        sys.exit(2)

    # 3. known findings: one demonstrator per open finding of this property
    stale = []
    try:
        from harness import demos as _demos
        demos = _demos.registry()
        if hasattr(mod, "demonstrators"):
            demos.update(mod.demonstrators())
        for k in core.open_findings(prop):
            fid = k["id"]
            if fid in demos:
                try:
                    still, what = demos[fid]()
                except Exception as e:
                    # the demonstrator exercises forsys on an input of the finding's class: if that now raises, the
                    # finding cannot be re-demonstrated on this tree; it is neither a harness error nor (by itself) a
                    # violation, and it must not hide the violations found by the search above
                    stale.append(fid)
                    print(f"NOTE: demonstrator of known finding {fid} raised {type(e).__name__}: {str(e)[:120]}",
                          flush=True)
                    continue
                if still:
                    print(f"KNOWN-FINDING: property={prop} {fid} {k['what']} [{what}]", flush=True)
                else:
                    stale.append(fid)
                    print(f"NOTE: known finding {fid} no longer reproduces ({what}); entry is stale", flush=True)
            else:
                print(f"KNOWN-FINDING: property={prop} {fid} {k['what']}", flush=True)
    except Exception:
        traceback.print_exc()
        print("HARNESS-ERROR: demonstrator failed", flush=True)
        sys.exit(2)

    extra = getattr(mod, "evidence_extra", lambda c: {})(ctx)
    extra["stale_known_findings"] = stale
    extra["open_known_findings"] = [k["id"] for k in core.open_findings(prop)]
    ev = core.write_evidence(ctx, mod.RULE, mod.ASSUMPTIONS, extra)
    nv = len(ctx.violations)
    print(f"{prop} tier={a.tier} seed={seed} evaluations={ctx.evaluations} nontrivial={len(ctx.nontrivial)} "
          f"violations={nv} wall={ev['wall_s']}s", flush=True)
    if len(ctx.nontrivial) < 2 and nv == 0:
        print("HARNESS-ERROR: fewer than 2 non-trivial cases were generated (generator health)", flush=True)
        sys.exit(2)
    sys.exit(1 if nv else 0)


def replay(mod, prop, path):
    from harness import core
    with open(path) as f:
        rec = json.load(f)
    ctx = core.Ctx(prop, "quick", 0)
    ctx.replaying = True
    fn = mod.CASES[rec.get("kind") or next(iter(mod.CASES))]
    try:
        core.run_case(ctx, fn, rec["params"], rec.get("kind"))
    except Exception:
        traceback.print_exc()
        print("HARNESS-ERROR: replay raised in harness code", flush=True)
        return 2
    if ctx.violations:
        for v in ctx.violations:
            print(f"VIOLATION property={prop} replay={path}  [{v['sub']}] observed={core._short(v.get('observed'))} "
                  f"expected={core._short(v.get('expected'))}", flush=True)
        return 1
    print(f"replay {path}: property held")
    return 0


if __name__ == "__main__":
    main()
