"""Loaders for the data shipped with the repository's tests (read from /repo/tests/data)."""
import os

from .core import REPO, call

DATA = os.path.join(REPO, "tests", "data")


def furrow_frames(n=8, gt=True):
    import forsys as fs
    frames = {}
    for ii in range(n):
        se = call(fs.surface_evolver.SurfaceEvolver, os.path.join(DATA, "furrow_gauss_velocity", f"stage{ii}.dmp"))
        frames[ii] = call(fs.frames.Frame, ii, se.vertices, se.edges, se.cells, time=ii, gt=gt)
    return frames


def se_mesh(name):
    import forsys as fs
    se = call(fs.surface_evolver.SurfaceEvolver, os.path.join(DATA, name))
    return se.vertices, se.edges, se.cells


def skeleton_mesh(name, ne=6, mirror_y=False, resample=True):
    import forsys as fs
    sk = call(fs.skeleton.Skeleton, os.path.join(DATA, name), mirror_y=mirror_y)
    v, e, c = call(sk.create_lattice)
    if resample:
        v, e, c, _ = call(fs.virtual_edges.generate_mesh, v, e, c, ne=ne)
    return v, e, c


def skeleton_frame(name, ne=6):
    import forsys as fs
    v, e, c = skeleton_mesh(name, ne)
    return call(fs.frames.Frame, 0, v, e, c, time=0)
