"""Synthetic skeleton images: rasterised Voronoi tissues, cleaned to a one-pixel-wide, 8-connected skeleton whose
junction pixels are minimal, with ground truth taken from the pixel grid and from the Voronoi model."""
import cmath
import math

import numpy as np

from . import tissue as T

N8 = [(-1, -1), (-1, 0), (-1, 1), (0, 1), (1, 1), (1, 0), (1, -1), (0, -1)]   # clockwise ring
N4 = [(-1, 0), (0, 1), (1, 0), (0, -1)]


def bresenham(x0, y0, x1, y1):
    pts = []
    dx, dy = abs(x1 - x0), -abs(y1 - y0)
    sx = 1 if x0 < x1 else -1
    sy = 1 if y0 < y1 else -1
    err = dx + dy
    while True:
        pts.append((x0, y0))
        if x0 == x1 and y0 == y1:
            break
        e2 = 2 * err
        if e2 >= dy:
            err += dy
            x0 += sx
        if e2 <= dx:
            err += dx
            y0 += sy
    return pts


def label4(mask):
    """4-connected components of True pixels (scipy.ndimage). Returns (labels int array, n)."""
    from scipy import ndimage
    lab, n = ndimage.label(mask, structure=[[0, 1, 0], [1, 1, 1], [0, 1, 0]])
    return lab.astype(np.int32), int(n)


def label8_count(mask):
    from scipy import ndimage
    _, n = ndimage.label(mask, structure=np.ones((3, 3), dtype=int))
    return int(n)


def _ring(fg, i, j):
    return [bool(fg[i + di, j + dj]) for di, dj in N8]


def is_simple(fg, i, j):
    """Removing foreground pixel (i,j) changes neither the 8-connectivity of the foreground nor the 4-connectivity
    of the background (digital topology: exactly one 8-component of foreground in the ring, exactly one 4-component
    of background 4-adjacent to the pixel)."""
    r = _ring(fg, i, j)
    if sum(r) < 2:
        return False            # endpoint / isolated: keep
    # 8-components of foreground in the ring (ring adjacency + diagonal shortcut through 4-neighbours is implied)
    comp = 0
    # foreground ring components under 8-adjacency: consecutive ring positions are adjacent; additionally the two
    # 4-neighbours flanking a corner are 8-adjacent to each other
    idx = [k for k in range(8) if r[k]]
    parent = {k: k for k in idx}

    def find(a):
        while parent[a] != a:
            a = parent[a]
        return a

    for k in idx:
        if r[(k + 1) % 8]:
            parent[find(k)] = find((k + 1) % 8)
        if k % 2 == 1 and r[(k + 2) % 8]:       # two 4-neighbours around a corner
            parent[find(k)] = find((k + 2) % 8)
    comp = len({find(k) for k in idx})
    if comp != 1:
        return False
    # 4-components of background in the ring that contain a 4-neighbour
    bidx = [k for k in range(8) if not r[k]]
    bparent = {k: k for k in bidx}

    def bfind(a):
        while bparent[a] != a:
            a = bparent[a]
        return a

    for k in bidx:
        if not r[(k + 1) % 8]:
            # ring neighbours k,k+1 are 4-adjacent (one of them is a 4-neighbour, the other a corner next to it)
            bparent[bfind(k)] = bfind((k + 1) % 8)
    groups = {bfind(k) for k in bidx if k % 2 == 1}
    return len(groups) == 1


def thin(fg):
    """Sequential removal of simple pixels until none is left (topology preserving)."""
    fg = fg.copy()
    H, W = fg.shape
    changed = True
    while changed:
        changed = False
        ys, xs = np.nonzero(fg)
        for i, j in zip(ys.tolist(), xs.tolist()):
            if 0 < i < H - 1 and 0 < j < W - 1 and fg[i, j] and is_simple(fg, i, j):
                fg[i, j] = False
                changed = True
    return fg


def has_2x2(fg):
    return bool(np.any(fg[:-1, :-1] & fg[1:, :-1] & fg[:-1, 1:] & fg[1:, 1:]))


def min_angle_and_length(t):
    jr = t.junction_ridges()
    amin = math.pi
    for j, rs in jr.items():
        angs = sorted(cmath.phase(t.tangent(ri, j)) for ri in rs)
        for k in range(len(angs)):
            d = (angs[(k + 1) % len(angs)] - angs[k]) % (2 * math.pi)
            if len(angs) >= 2:
                amin = min(amin, d)
    lmin = min(abs(t.J[r.a] - t.J[r.b]) for r in t.ridges)
    return amin, lmin


def make_ragged(t, rng, frac):
    """Remove a fraction of the border cells one at a time, keeping the tissue edge-connected and pinch-free (only
    border cells are removed, so no holes appear): ragged outline, bud cells, border-to-border interfaces."""
    n_remove = int(round(frac * len(t.cells)))
    for _ in range(n_remove):
        border = sorted(c for c in t.cells if any(len(t.ridge_cells(ri)) == 1 for ri, _ in t.cells[c]))
        if len(t.cells) <= 3 or not border:
            break
        c = border[int(rng.integers(0, len(border)))]
        t2 = t.subtissue([x for x in t.cells if x != c])
        if len(t2.cell_adjacency_components()) == 1 and not t2.pinch_junctions():
            t = t2
    return t


def make_tissue(seed, ncells, ragged=0.0, wild=False):
    """Well-shaped Voronoi tissue in pixel units (angles > 25 deg, ridges > 8 px), or None.
    wild=True: strongly jittered sites, any angles and ridge lengths (very short walls, near four-way contacts)."""
    rng = T.PRNG(seed)
    px = float(rng.uniform(35, 90))
    side = max(4, int(math.ceil(math.sqrt(ncells))) + 3)
    g = np.array([(i + 0.5 + 0.5 * (j % 2), (j + 0.5) * 0.9) for j in range(side) for i in range(side)], float)
    pts = g + rng.uniform(-0.22, 0.22, size=g.shape) * (2.0 if wild else 1.0)
    for attempt in range(4):
        z = (pts[:, 0] + 1j * pts[:, 1]) * px
        box = (0.6 * px, (side - 0.1) * px, 0.5 * px, (side - 0.6) * 0.9 * px)
        try:
            t = T.voronoi_tissue(z, box)
        except ValueError:
            return None
        if len(t.cells) < 2:
            return None
        t = T.trim_cells(t, ncells, rng)
        if ragged > 0:
            t = make_ragged(t, rng, ragged)
        a, l = min_angle_and_length(t)
        if (a > math.radians(25) and l > 8.0) or wild:
            return t, px
        # Lloyd step on all sites (centroid of bounded cells), then retry
        from scipy.spatial import Voronoi
        with np.errstate(all="ignore"):
            vor = Voronoi(pts)
        new = pts.copy()
        for si, reg_i in enumerate(vor.point_region):
            reg = vor.regions[reg_i]
            if len(reg) >= 3 and -1 not in reg:
                c = vor.vertices[reg].mean(axis=0)
                if np.all(np.abs(c - pts[si]) < 0.5):
                    new[si] = c
        pts = new
    return None


def make_bricks2(seed):
    """Brick tissue with two size populations (one row of large bricks under three rows of small ones, ratio of
    areas about 6): a legitimate tissue in which cell areas are far from uniform. Returns (tissue, px) like make_tissue."""
    rng = T.PRNG(seed)
    W = int(rng.integers(54, 67))
    hs = int(rng.integers(16, 20))
    hb = int(round(W * hs * float(rng.uniform(5.3, 6.3)) / W))
    nb = int(rng.integers(5, 8))
    full = [k * W for k in range(nb + 1)]
    half = [W // 2 + k * W for k in range(nb)]
    rows = [(0, hb, full), (hb, hb + hs, half), (hb + hs, hb + 2 * hs, full), (hb + 2 * hs, hb + 3 * hs, half)]
    polys = []
    for r, (y0, y1, xs) in enumerate(rows):
        below = rows[r - 1][2] if r > 0 else []
        above = rows[r + 1][2] if r + 1 < len(rows) else []
        for x0, x1 in zip(xs, xs[1:]):
            bottom = [x0] + [x for x in below if x0 < x < x1] + [x1]
            top = [x1] + [x for x in reversed(above) if x0 < x < x1] + [x0]
            polys.append([(float(x), float(y0)) for x in bottom] + [(float(x), float(y1)) for x in top])
    return T._lattice_from_polys(polys, "bricks2"), float(W)


def rasterise(t, margin=4):
    zs = np.array(list(t.J.values()))
    x0, y0 = zs.real.min(), zs.imag.min()
    W = int(math.ceil(zs.real.max() - x0)) + 2 * margin + 1
    H = int(math.ceil(zs.imag.max() - y0)) + 2 * margin + 1
    fg = np.zeros((H, W), dtype=bool)
    pix = {j: (int(round(z.real - x0)) + margin, int(round(z.imag - y0)) + margin) for j, z in t.J.items()}
    for r in t.ridges:
        (xa, ya), (xb, yb) = pix[r.a], pix[r.b]
        for x, y in bresenham(xa, ya, xb, yb):
            fg[y, x] = True
    return fg, pix, (x0 - margin, y0 - margin)


def make_image(seed, ncells, ragged=0.0, thinning=True, wild=False, kind="voronoi"):
    """Returns dict(array uint8 with a 1-px margin added for the parser's crop, fg (cropped view), tissue, labels,
    regions) or None when the image preconditions are not met (counted by the caller)."""
    mt = make_bricks2(seed) if kind == "bricks2" else make_tissue(seed, ncells, ragged, wild=wild)
    if mt is None:
        return None
    t, px = mt
    if t.pinch_junctions() or len(t.cell_adjacency_components()) != 1:
        return None
    fg, pix, origin = rasterise(t)
    # fill tiny holes (background components smaller than 8 px that do not touch the border)
    lab, n = label4(~fg)
    sizes = np.bincount(lab.ravel(), minlength=n + 1)
    border = set(np.unique(np.concatenate([lab[0], lab[-1], lab[:, 0], lab[:, -1]]))) - {0}
    for k in range(1, n + 1):
        if k not in border and sizes[k] < 8:
            fg[lab == k] = True
    H, W = fg.shape
    if thinning:
        fg = thin(fg)
        # preconditions, independent of forsys
        if label8_count(fg) != 1 or has_2x2(fg):
            return None
        ys, xs = np.nonzero(fg)
        for i, j in zip(ys.tolist(), xs.tolist()):
            if 0 < i < H - 1 and 0 < j < W - 1 and is_simple(fg, i, j):
                return None
    elif label8_count(fg) != 1:
        # raw line raster (junction pixels not minimal: corner artefacts that the parser has to merge)
        return None
    lab, n = label4(~fg)
    border = set(np.unique(np.concatenate([lab[0], lab[-1], lab[:, 0], lab[:, -1]]))) - {0}
    if len(border) != 1:
        return None
    enclosed = [k for k in range(1, n + 1) if k not in border]
    if wild:
        # no ground truth is attached to such images: they only have to parse into a consistent mesh (C09)
        arr = np.zeros((H + 2, W + 2), dtype=np.uint8)
        arr[1:-1, 1:-1] = fg.astype(np.uint8) * 255
        return {"array": arr, "fg": fg, "tissue": t, "labels": lab, "outside": next(iter(border)),
                "region_of_cell": None, "px": px, "origin": origin}
    if len(enclosed) != len(t.cells):
        return None
    # map regions to tissue cells by the cell's centroid pixel
    region_of_cell = {}
    for cid in t.cells:
        zs = [t.J[t.ridges[ri].a] for ri, _ in t.cells[cid]]
        c = sum(zs) / len(zs)
        x, y = int(round(c.real - origin[0])), int(round(c.imag - origin[1]))
        k = int(lab[y, x])
        if k == 0 or k in border or k in region_of_cell.values():
            return None
        region_of_cell[cid] = k
    arr = np.zeros((H + 2, W + 2), dtype=np.uint8)
    arr[1:-1, 1:-1] = fg.astype(np.uint8) * 255
    return {"array": arr, "fg": fg, "tissue": t, "labels": lab, "outside": next(iter(border)),
            "region_of_cell": region_of_cell, "px": px, "origin": origin}


SYMS = ["id", "rot90", "rot180", "rot270", "fliplr", "flipud", "transpose", "antitranspose"]


def apply_symmetry(a, k):
    k = k % 8
    if k == 0:
        return a.copy()
    if k == 1:
        return np.rot90(a, 1).copy()
    if k == 2:
        return np.rot90(a, 2).copy()
    if k == 3:
        return np.rot90(a, 3).copy()
    if k == 4:
        return np.fliplr(a).copy()
    if k == 5:
        return np.flipud(a).copy()
    if k == 6:
        return a.T.copy()
    return np.rot90(a, 2).T.copy()


def pad(a, top, left, bottom, right):
    H, W = a.shape
    out = np.zeros((H + top + bottom, W + left + right), dtype=a.dtype)
    out[top:top + H, left:left + W] = a
    return out


def save(arr, fn):
    from PIL import Image
    Image.fromarray(arr.astype(np.uint8), mode="L").save(fn)
