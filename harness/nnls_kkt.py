"""KKT optimality certificate for  min ||M x - b||^2  s.t. x >= 0  (necessary and sufficient: convex problem)."""
import numpy as np


def kkt_report(M, b, x, rel=1e-7):
    """Returns (ok, info).  tau = rel * ||M||_2^2 * max(1, ||x||) + rel * ||M||_2 * ||b||."""
    M = np.asarray(M, float)
    b = np.asarray(b, float)
    x = np.asarray(x, float)
    with np.errstate(all="ignore"):
        nM = np.linalg.norm(M, 2)
        g = M.T @ (M @ x - b)
    tau = rel * nM * nM * max(1.0, np.linalg.norm(x)) + rel * nM * np.linalg.norm(b)
    neg = float(min(0.0, x.min())) if len(x) else 0.0
    dual = float(min(0.0, g.min())) if len(g) else 0.0
    comp = float(np.max(np.abs(x * g))) if len(x) else 0.0
    ok = (neg >= -tau / max(nM * nM, 1e-300)) and dual >= -tau and comp <= tau * max(1.0, float(np.max(np.abs(x))))
    return ok, {"tau": float(tau), "min_x": neg, "min_gradient": dual, "max_abs_x_times_gradient": comp}


def objective(M, b, x):
    with np.errstate(all="ignore"):
        r = np.asarray(M, float) @ np.asarray(x, float) - np.asarray(b, float)
    return float(r @ r)


def reference_nnls(M, b):
    """Trusted-library minimiser, certified by kkt_report before use (returns None if it cannot be certified)."""
    import scipy.optimize as sco
    with np.errstate(all="ignore"):
        try:
            x, _ = sco.nnls(np.asarray(M, float), np.asarray(b, float), maxiter=50 * M.shape[1] + 100)
        except Exception:
            return None
    ok, _ = kkt_report(M, b, x, rel=1e-6)
    return x if ok else None
