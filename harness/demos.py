"""Demonstrators of the open known findings, shared by all checks that list the finding."""


def registry():
    from .checks import c01, c02, c04, c05, c06, c11
    out = {}
    for mod in (c02, c01, c04, c05, c06, c11):
        out.update(mod.demonstrators())
    return out
