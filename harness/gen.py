"""Hypothesis strategies producing plain-dict case parameters, and the deterministic builders that turn them into
tissues.  Structure-determining choices are individual draws (they shrink); bulk numeric detail is a pure function
of one drawn 32-bit integer (replayable)."""
import cmath
import math

import numpy as np
from hypothesis import strategies as st

from . import tissue as T
from .realise import Labelling

class Degenerate(Exception):
    """The drawn parameters do not yield a usable tissue (counted as a generator rejection, never a violation)."""


SNAP_DELTAS = [0.0, 1e-9, -1e-9, 1e-4, -1e-4, math.radians(0.3), -math.radians(0.3)]


@st.composite
def tissue_params(draw, kinds=("voronoi", "moebius"), max_cells=24, min_cells=4, allow_sub=False,
                  n_int_max=15, n_int_min=0, pose=True, labels=True, lattices=()):
    p = {}
    kind = draw(st.sampled_from(list(kinds) + list(lattices)))
    p["kind"] = kind
    if kind in ("voronoi", "moebius"):
        p["mode"] = draw(st.sampled_from(["uniform", "grid", "clustered"]))
        p["n_cells"] = draw(st.integers(min_cells, max_cells))
        p["seed"] = draw(st.integers(0, 2 ** 32 - 1))
        p["jitter"] = draw(st.sampled_from([0.05, 0.15, 0.3, 0.45]))
        if kind == "moebius":
            p["pole_logd"] = draw(st.floats(math.log(1.15), math.log(50.0)))
            p["pole_phi"] = draw(st.floats(0, 2 * math.pi))
    else:
        p["nx"] = draw(st.integers(2, 6))
        p["ny"] = draw(st.integers(2, 6))
    if allow_sub:
        p["sub"] = draw(st.one_of(st.none(), st.fixed_dictionaries(
            {"frac": st.floats(0.3, 0.95), "seed": st.integers(0, 2 ** 32 - 1)})))
    # sampling
    mode = draw(st.sampled_from(["const", "const", "per"]))
    if kind in ("voronoi", "hex", "square", "brick", "triborder"):
        lo = n_int_min
    else:
        lo = max(1, n_int_min)       # a two-point chord of a curved arc is not an equilibrium interface
    if mode == "const":
        p["n_int"] = {"mode": "const", "k": draw(st.integers(lo, n_int_max))}
    else:
        p["n_int"] = {"mode": "per", "lo": lo, "hi": draw(st.integers(lo, n_int_max)),
                      "seed": draw(st.integers(0, 2 ** 32 - 1))}
    if pose:
        p["pose"] = draw(pose_params())
    if labels:
        p["lab"] = draw(labelling_params())
    return p


@st.composite
def pose_params(draw, snap=True):
    q = {}
    q["logscale"] = draw(st.one_of(st.just(0.0), st.floats(-3, 3)))
    q["reflect"] = draw(st.booleans())
    sh = draw(st.sampled_from([0.0, 1.0, 100.0, 1e4]))
    # quantised (no denormal-size coordinates: forsys runs numpy with underflow errors raised)
    q["shift"] = [sh * draw(st.integers(-1000, 1000)) / 1000.0, sh * draw(st.integers(-1000, 1000)) / 1000.0]
    rm = draw(st.sampled_from(["uniform", "snap", "snapchord", "zero"] if snap else ["uniform", "zero"]))
    q["rot_mode"] = rm
    if rm == "uniform":
        q["angle"] = draw(st.integers(0, 2 ** 20 - 1)) * (2 * math.pi / 2 ** 20)
    elif rm == "snap":
        q["snap_end"] = draw(st.integers(0, 10 ** 6))
        q["snap_k"] = draw(st.integers(0, 3))
        q["snap_delta"] = draw(st.sampled_from(SNAP_DELTAS))
    elif rm == "snapchord":
        # the first polyline segment at a chosen interface end is made exactly axis-parallel (as pixel data is)
        q["snap_end"] = draw(st.integers(0, 10 ** 6))
        q["snap_k"] = draw(st.integers(0, 3))
    return q


@st.composite
def labelling_params(draw):
    return dict(seed=draw(st.integers(0, 2 ** 32 - 1)), relabel_v=draw(st.sampled_from([False, True, "perm0"])),
                relabel_e=draw(st.booleans()), relabel_c=draw(st.booleans()), shifts=draw(st.booleans()),
                flips=draw(st.sampled_from(["none", "all", "mixed"])), flip_bits=None,
                perm_cells=draw(st.booleans()))


# --------------------------------------------------------------------------------------------- builders
def build_base(p):
    """Tissue before pose / sub-selection."""
    kind = p["kind"]
    if kind in ("voronoi", "moebius"):
        for attempt in range(6):
            rng = T.PRNG(p["seed"] + 7919 * attempt)
            z, box = T.make_sites(p["mode"], p["n_cells"], rng, jitter=p.get("jitter", 0.25))
            try:
                t = T.voronoi_tissue(z, box)
            except ValueError:
                continue
            if len(t.cells) < 2:
                continue
            t = T.trim_cells(t, p["n_cells"], rng)
            # reject degenerate geometry: very short ridges make junctions ill-defined for any method
            ext = t.extent()
            if min(abs(t.J[r.a] - t.J[r.b]) for r in t.ridges) < p.get("min_ridge_rel", 1e-3) * ext:
                continue
            break
        else:
            raise Degenerate("could not build a non-degenerate Voronoi tissue")
        if kind == "moebius":
            cen = t.centre()
            R = max(abs(zz - cen) for zz in t.J.values())
            pole = cen + math.exp(p["pole_logd"]) * R * cmath.exp(1j * p["pole_phi"])
            ext0 = t.extent()
            m = T.moebius(t, pole)
            s = ext0 / m.extent()
            t = m.similarity(scale=s, shift=-m.centre() * s)
        return t
    if kind == "hex":
        return T.hex_lattice(p["nx"], p["ny"])
    if kind == "square":
        return T.square_lattice(p["nx"], p["ny"])
    if kind == "brick":
        t = T.brick_lattice(p["nx"], p["ny"])
        if p.get("jitter_seed") is not None:
            # perturbed brick wall in which the junctions of ONE horizontal line keep exactly their common y (their
            # through-lines stay exactly straight: opening exactly pi), every other junction moves in x and y
            from dataclasses import replace as _rep
            rng = T.PRNG(p["jitter_seed"])
            ys = sorted({round(z.imag, 9) for z in t.J.values()})
            inner = ys[1:-1] or ys
            keep_y = inner[int(rng.integers(0, len(inner)))]
            J = {}
            for j, z in t.J.items():
                dx, dy = (float(v) for v in rng.uniform(-0.08, 0.08, size=2))
                J[j] = complex(z.real + dx, z.imag if round(z.imag, 9) == keep_y else z.imag + dy)
            t = _rep(t, J=J)
        return t
    if kind == "wheel":
        # a hub cell surrounded by N ring cells (N = nx * ny): one cell with N internal interfaces; internal
        # interfaces are bent into arcs with drawn subtended angles
        import cmath as _c
        from dataclasses import replace as _rep
        N = max(6, p["nx"] * p["ny"])
        rng = T.PRNG(p.get("seed", 0))
        hub = [(math.cos(2 * math.pi * k / N), math.sin(2 * math.pi * k / N)) for k in range(N)]
        out = [(2.2 * x, 2.2 * y) for x, y in hub]
        polys = [hub] + [[hub[k], out[k], out[(k + 1) % N], hub[(k + 1) % N]] for k in range(N)]
        t = T._lattice_from_polys(polys, "wheel")
        ridges = []
        for r in t.ridges:
            if r.left is not None and r.right is not None:
                a, b = t.J[r.a], t.J[r.b]
                # the bulge of an arc stays well inside the thin ring cells: sagitta = L * theta / 8 << cell width
                wmin = 2 * math.sin(math.pi / N)
                th_max = min(0.45, 1.2 * wmin / abs(b - a))
                th = float(rng.uniform(0.25, 1.0)) * th_max * (1 if rng.uniform() < 0.5 else -1)
                e = _c.exp(1j * th)
                ridges.append(_rep(r, c=(a * e - b) / (e - 1), theta=th))
            else:
                ridges.append(r)
        return _rep(t, ridges=ridges)
    if kind == "triborder":
        # a polygonal triangular cell on the tissue border between two larger cells (all sides straight), optionally
        # with a row of further cells below; corners jittered by the seed
        rng = T.PRNG(p.get("seed", 0))
        base = {"c": (0, 0), "a": (-1, 1), "b": (1, 1), "d": (0, -1.5), "l1": (-2, 0.4), "l2": (-1.2, -1),
                "r1": (2, 0.4), "r2": (1.2, -1), "e": (0, -2.6), "l3": (-1.4, -2.3), "r3": (1.4, -2.3)}
        P = {k: (x + float(rng.uniform(-0.12, 0.12)), y + float(rng.uniform(-0.12, 0.12))) for k, (x, y) in base.items()}
        polys = [[P["c"], P["b"], P["a"]], [P["c"], P["a"], P["l1"], P["l2"], P["d"]],
                 [P["c"], P["d"], P["r2"], P["r1"], P["b"]]]
        if p.get("nx", 0) % 2:
            polys += [[P["d"], P["l2"], P["l3"], P["e"]], [P["d"], P["e"], P["r3"], P["r2"]]]
        return T._lattice_from_polys(polys, "triborder")
    raise ValueError(kind)


def apply_sub(t, p, connected=True, no_pinch=True, stats=None):
    sub = p.get("sub")
    if not sub:
        return t
    rng = T.PRNG(sub["seed"])
    ids = sorted(t.cells)
    keep = [c for c in ids if rng.uniform() < sub["frac"]]
    if len(keep) < 1:
        keep = [ids[0]]
    s = t.subtissue(keep)
    if connected:
        comps = s.cell_adjacency_components()
        if len(comps) > 1:
            if stats is not None:
                stats["sub_disconnected_repaired"] = stats.get("sub_disconnected_repaired", 0) + 1
            big = max(comps, key=lambda c: (len(c), -min(c)))
            s = t.subtissue(sorted(big))
    if no_pinch:
        for _ in range(20):
            pj = s.pinch_junctions()
            if not pj:
                break
            if stats is not None:
                stats["sub_pinch_repaired"] = stats.get("sub_pinch_repaired", 0) + 1
            # remove one of the cells at the pinch (the one with the largest id) and keep the largest component
            caj = s.cells_at_junction()
            drop = max(caj[pj[0]])
            rest = [c for c in s.cells if c != drop]
            if not rest:
                break
            s2 = t.subtissue(rest)
            comps = s2.cell_adjacency_components()
            big = max(comps, key=lambda c: (len(c), -min(c)))
            s = t.subtissue(sorted(big))
    return s


def n_int_func(t, p):
    ni = p["n_int"]
    if ni["mode"] == "const":
        k = ni["k"]
        d = {ri: k for ri in range(len(t.ridges))}
    else:
        rng = T.PRNG(ni["seed"])
        d = {ri: int(rng.integers(ni["lo"], ni["hi"] + 1)) for ri in range(len(t.ridges))}
    # curved ridges need at least one interior point (a chord is not the arc)
    for ri, r in enumerate(t.ridges):
        if r.c is not None and d[ri] < 1:
            d[ri] = 1
    return d


def ridge_ends(t):
    """All (ridge, junction) pairs in a fixed order."""
    out = []
    for ri, r in enumerate(t.ridges):
        out.append((ri, r.a))
        out.append((ri, r.b))
    return out


def pose_angle(t1, q, nint=None):
    """Rotation angle for the (already reflected / scaled) tissue t1."""
    rm = q.get("rot_mode", "zero")
    if rm == "zero":
        return 0.0
    if rm == "uniform":
        return q["angle"]
    ends = ridge_ends(t1)
    ri, j = ends[q["snap_end"] % len(ends)]
    if rm == "snapchord":
        ch = t1.chord_dir(ri, j, (nint or {}).get(ri, 1) if t1.ridges[ri].c is not None else (nint or {}).get(ri, 0))
        return q["snap_k"] * math.pi / 2 - cmath.phase(ch)
    tg = t1.tangent(ri, j)
    return q["snap_k"] * math.pi / 2 + q["snap_delta"] - cmath.phase(tg)


def snap_chord_exact(t, R, q):
    """For rot_mode 'snapchord': make the chosen first segment exactly axis-parallel in the realised mesh (moves one
    sample point by rounding error only). Returns the (ridge, junction) concerned or None."""
    if not q or q.get("rot_mode") != "snapchord":
        return None
    ends = ridge_ends(t)
    ri, j = ends[q["snap_end"] % len(ends)]
    r = t.ridges[ri]
    n = R.n_int[ri]
    chain = [("J", r.a)] + [("I", ri, k) for k in range(n)] + [("J", r.b)]
    a, b = (chain[0], chain[1]) if j == r.a else (chain[-1], chain[-2])
    if a not in R.vid_of_tok or b not in R.vid_of_tok or b[0] == "J":
        return None          # do not move junctions
    va, vb = R.vertices[R.vid_of_tok[a]], R.vertices[R.vid_of_tok[b]]
    if q["snap_k"] % 2 == 0:
        vb.y = va.y
    else:
        vb.x = va.x
    return ri, j


def apply_pose(t, q, nint=None, avoid_d1=False, stats=None, ends=None):
    """Reflect/scale first, then rotate (angle from q, or -- with avoid_d1 -- the nearest D1-free angle chosen by
    construction from the complement of the forbidden intervals), then translate.
    Returns (posed tissue, angle) ; (None, None) when avoid_d1 is set and no D1-free rotation exists."""
    if not q:
        q = {"rot_mode": "zero", "shift": [0.0, 0.0]}
    s = 10.0 ** q.get("logscale", 0.0)
    t1 = t.similarity(scale=s, reflect=bool(q.get("reflect")))
    angle = pose_angle(t1, q, nint)
    if avoid_d1:
        bad = [e for e in straddle_list(t1.similarity(angle=angle), nint, 1e-9)
               if ends is None or (e[0], e[1]) in ends]
        if bad:
            if stats is not None:
                stats["d1_rotation_moved"] = stats.get("d1_rotation_moved", 0) + 1
            u = (angle / (math.pi / 2)) % 1.0
            phi = free_rotation(t1, nint, u, ends=ends)
            if phi is None:
                return None, None
            angle = phi + (math.pi / 2) * int(angle // (math.pi / 2))
    ext = t1.extent()
    sh = complex(q["shift"][0], q["shift"][1]) * ext
    return t1.similarity(angle=angle, shift=sh), angle


# --------------------------------------------------------------------------------------------- D1 (straddle) helpers
def _sgn(x):
    return 1.0 if x >= 0 else -1.0


def straddle_error(t, ri, j, n_int):
    """Known finding D1: forsys forces each tangent component to the sign of the first chord's component.  Returns
    the size of the resulting error (0 when tangent and chord agree in sign component-wise)."""
    tg = t.tangent(ri, j)
    ch = t.chord_dir(ri, j, n_int)
    err = 0.0
    for a, b in ((tg.real, ch.real), (tg.imag, ch.imag)):
        cs = 1.0 if b == 0 else _sgn(b)
        if a != 0 and _sgn(a) != cs:
            err = max(err, 2 * abs(a))
    return err


def straddle_list(t, nint, thresh):
    out = []
    for ri, j in ridge_ends(t):
        e = straddle_error(t, ri, j, nint[ri])
        if e > thresh:
            out.append((ri, j, e))
    return out


def free_rotation(t, nint, u, ends=None, pad=1e-6):
    """Rotation angle in [0, pi/2) + k*pi/2 at which no (ridge end) tangent/chord pair straddles a coordinate axis.
    Construction, not rejection: the forbidden set is a finite union of intervals (mod pi/2); `u` in [0,1) is mapped
    proportionally onto its complement.  Returns None if the complement is empty."""
    H = math.pi / 2
    iv = []
    for ri, j in (ends if ends is not None else ridge_ends(t)):
        r = t.ridges[ri]
        if r.c is None:
            continue
        a = cmath.phase(t.tangent(ri, j))
        b = cmath.phase(t.chord_dir(ri, j, nint[ri]))
        d = (b - a + math.pi) % (2 * math.pi) - math.pi       # chord = tangent rotated by d (|d| small)
        lo, hi = (a, a + d) if d >= 0 else (a + d, a)
        # rotation phi is forbidden when some multiple of pi/2 lies in [lo+phi, hi+phi]  <=>  phi in [-hi, -lo] mod H
        s = (-hi - pad) % H
        w = (hi - lo) + 2 * pad
        if w >= H:
            return None
        if s + w <= H:
            iv.append((s, s + w))
        else:
            iv.append((s, H))
            iv.append((0.0, s + w - H))
    iv.sort()
    free = []
    cur = 0.0
    for s, e in iv:
        if s > cur:
            free.append((cur, s))
        cur = max(cur, e)
    if cur < H:
        free.append((cur, H))
    total = sum(e - s for s, e in free)
    if total <= 1e-9:
        return None
    x = (u % 1.0) * total
    for s, e in free:
        if x <= e - s:
            return s + x
        x -= e - s
    return free[-1][0]


def lab_of(p):
    return Labelling.from_json(p.get("lab"))
