"""Synthetic tissues with closed-form ground truth (independent of forsys).

A Tissue is a planar cell complex whose interfaces ("ridges") are exact circular arcs or straight segments:
  J      : {jid: complex}                       junction positions
  ridges : list of Ridge(a, b, c, theta, left, right, T)
           arc from J[a] to J[b]; c = circle centre (None = straight), theta = signed angle swept about c going a->b
           left/right = cell ids on the left / right when walking a->b (None = outside), T = true tension
  cells  : {cid: [(ridge_index, forward?), ...]} boundary cycle, counter-clockwise in a y-up frame
  sites  : {cid: complex} (Voronoi sites, for analytic pressures), pole (complex or None), pscale (float)

Ground truth derived in closed form: unit tangents at ridge ends, curvature, centre-of-curvature side, turning angle,
Young-Laplace pressures  p_i = |s_i - pole|^2 / pscale  (Moebius images of Voronoi diagrams).
"""
import cmath
import math
from dataclasses import dataclass, field, replace

import numpy as np


class PRNG:
    """Counter-free deterministic generator: every bulk number is a pure function of one drawn 32-bit integer."""

    def __init__(self, seed):
        self.r = np.random.Generator(np.random.PCG64(int(seed) & 0xFFFFFFFF))

    def uniform(self, a=0.0, b=1.0, size=None):
        return self.r.uniform(a, b, size)

    def integers(self, a, b, size=None):
        return self.r.integers(a, b, size)

    def permutation(self, n):
        return self.r.permutation(n)

    def normal(self, size=None):
        return self.r.normal(size=size)

    def choice(self, seq):
        return seq[int(self.r.integers(0, len(seq)))]


@dataclass
class Ridge:
    a: int
    b: int
    c: complex          # None for straight
    theta: float        # signed sweep a->b about c (0 for straight)
    left: int
    right: int
    T: float = 1.0

    def straight(self):
        return self.c is None


@dataclass
class Tissue:
    J: dict
    ridges: list
    cells: dict
    sites: dict = field(default_factory=dict)
    pole: complex = None
    pscale: float = 1.0       # pressure = |s - pole|^2 / pscale
    kind: str = "voronoi"
    meta: dict = field(default_factory=dict)

    # ------------------------------------------------------------------ geometry of one ridge
    def end(self, ri, which):
        r = self.ridges[ri]
        return self.J[r.a] if which == 0 else self.J[r.b]

    def points(self, ri, n_int):
        """n_int interior points (uniform in angle / arclength) between the two junctions, a->b order, exclusive."""
        r = self.ridges[ri]
        za, zb = self.J[r.a], self.J[r.b]
        ts = [(k + 1) / (n_int + 1) for k in range(n_int)]
        tpow = self.meta.get("tpow", 1.0)
        if tpow != 1.0:
            ts = [t ** tpow for t in ts]      # non-uniform spacing along the interface (same curve)
        if r.c is None:
            return [za + (zb - za) * t for t in ts]
        return [r.c + (za - r.c) * cmath.exp(1j * r.theta * t) for t in ts]

    def tangent(self, ri, jid):
        """Unit tangent at junction jid pointing from the junction along the ridge."""
        r = self.ridges[ri]
        za, zb = self.J[r.a], self.J[r.b]
        if r.c is None:
            d = (zb - za) / abs(zb - za)
            return d if jid == r.a else -d
        s = 1.0 if r.theta > 0 else -1.0
        if jid == r.a:
            v = 1j * s * (za - r.c)
        else:
            v = -1j * s * (zb - r.c)
        return v / abs(v)

    def radius(self, ri):
        r = self.ridges[ri]
        return math.inf if r.c is None else abs(self.J[r.a] - r.c)

    def length(self, ri):
        r = self.ridges[ri]
        if r.c is None:
            return abs(self.J[r.b] - self.J[r.a])
        return abs(r.theta) * self.radius(ri)

    def centre_side_cell(self, ri):
        """Cell on the centre-of-curvature side (None if straight). theta>0: centre on the left of a->b."""
        r = self.ridges[ri]
        if r.c is None:
            return None
        return r.left if r.theta > 0 else r.right

    def chord_dir(self, ri, jid, n_int):
        """Direction from junction to its neighbouring sample point (what forsys' sign forcing looks at)."""
        r = self.ridges[ri]
        pts = [self.J[r.a]] + self.points(ri, n_int) + [self.J[r.b]]
        if jid == r.a:
            d = pts[1] - pts[0]
        else:
            d = pts[-2] - pts[-1]
        return d / abs(d)

    # ------------------------------------------------------------------ whole-tissue
    def junction_ridges(self):
        m = {}
        for i, r in enumerate(self.ridges):
            m.setdefault(r.a, []).append(i)
            m.setdefault(r.b, []).append(i)
        return m

    def cell_polygon(self, cid, n_int_of):
        """Vertex cycle of a cell as list of ('J', jid) / ('I', ri, k) tokens, CCW."""
        out = []
        for ri, fwd in self.cells[cid]:
            r = self.ridges[ri]
            n = n_int_of(ri)
            if fwd:
                out.append(("J", r.a))
                out.extend(("I", ri, k) for k in range(n))
            else:
                out.append(("J", r.b))
                out.extend(("I", ri, k) for k in reversed(range(n)))
        return out

    def extent(self):
        zs = np.array(list(self.J.values()))
        return max(zs.real.max() - zs.real.min(), zs.imag.max() - zs.imag.min())

    def centre(self):
        zs = np.array(list(self.J.values()))
        return complex(zs.mean())

    def pressure(self, cid):
        if self.pole is None:
            return 0.0
        return abs(self.sites[cid] - self.pole) ** 2 / self.pscale

    # ------------------------------------------------------------------ transforms
    def similarity(self, scale=1.0, angle=0.0, shift=0j, reflect=False):
        """z -> scale*e^{i angle}*(conj z if reflect) + shift."""
        rot = scale * cmath.exp(1j * angle)

        def f(z):
            if z is None:
                return None
            zz = z.conjugate() if reflect else z
            return rot * zz + shift

        J = {k: f(z) for k, z in self.J.items()}
        ridges = []
        for r in self.ridges:
            if reflect:
                ridges.append(replace(r, c=f(r.c), theta=-r.theta, left=r.right, right=r.left))
            else:
                ridges.append(replace(r, c=f(r.c)))
        cells = self.cells
        if reflect:
            # keep cycles CCW: reverse order and flip directions
            cells = {cid: [(ri, not fwd) for ri, fwd in reversed(cyc)] for cid, cyc in self.cells.items()}
        # pressures: curvature scales 1/scale (sites kept in the pre-image frame; only the ratio matters)
        return replace(self, J=J, ridges=ridges, cells=cells, pscale=self.pscale * scale,
                       meta=dict(self.meta, pose=dict(scale=scale, angle=angle, shift=[shift.real, shift.imag],
                                                      reflect=reflect)))

    def subtissue(self, keep):
        """Restrict to the cells in `keep` (ids). Ridges not bordering a kept cell disappear; junctions likewise."""
        keep = set(keep)
        used = set()
        for cid in keep:
            for ri, _ in self.cells[cid]:
                used.add(ri)
        remap = {}
        ridges = []
        for ri in sorted(used):
            r = self.ridges[ri]
            remap[ri] = len(ridges)
            ridges.append(replace(r, left=r.left if r.left in keep else None,
                                  right=r.right if r.right in keep else None))
        cells = {cid: [(remap[ri], fwd) for ri, fwd in self.cells[cid]] for cid in sorted(keep)}
        jused = set()
        for r in ridges:
            jused.add(r.a)
            jused.add(r.b)
        J = {j: self.J[j] for j in sorted(jused)}
        sites = {c: s for c, s in self.sites.items() if c in keep}
        return replace(self, J=J, ridges=ridges, cells=cells, sites=sites)

    def with_tensions(self, T):
        return replace(self, ridges=[replace(r, T=float(t)) for r, t in zip(self.ridges, T)])

    # ------------------------------------------------------------------ classification from ground truth
    def cells_at_junction(self):
        m = {j: set() for j in self.J}
        for cid, cyc in self.cells.items():
            for ri, _ in cyc:
                r = self.ridges[ri]
                m[r.a].add(cid)
                m[r.b].add(cid)
        return m

    def ridge_cells(self, ri):
        r = self.ridges[ri]
        return [c for c in (r.left, r.right) if c is not None]

    def internal_ridges(self):
        """Ridges that forsys must classify as internal: two cells, and an end junction shared by >= 3 cells."""
        caj = self.cells_at_junction()
        out = []
        for i, r in enumerate(self.ridges):
            if r.left is not None and r.right is not None and (len(caj[r.a]) >= 3 or len(caj[r.b]) >= 3):
                out.append(i)
        return out

    def classify_ridges(self, nint):
        """Vertex-count predicate of the property (C08): internal iff every vertex of the interface is in >= 2 cells
        and an end is in >= 3.  Returns (internal, ambiguous): `ambiguous` = two-point ridges bordering only ONE cell
        whose ends nevertheless satisfy the predicate (a notch / hole edge between two inner junctions): there the
        predicate and 'internal interfaces separate exactly two cells' contradict each other, so either
        classification is accepted."""
        caj = self.cells_at_junction()
        internal, ambiguous = [], []
        for i, r in enumerate(self.ridges):
            na, nb = len(caj[r.a]), len(caj[r.b])
            ends_ok = na >= 2 and nb >= 2 and (na >= 3 or nb >= 3)
            two = r.left is not None and r.right is not None
            if two and ends_ok:
                internal.append(i)
            elif ends_ok and nint[i] == 0:
                ambiguous.append(i)
        return internal, ambiguous

    def cell_adjacency_components(self):
        """Connected components of cells under 'share a ridge'."""
        adj = {c: set() for c in self.cells}
        for r in self.ridges:
            if r.left is not None and r.right is not None:
                adj[r.left].add(r.right)
                adj[r.right].add(r.left)
        seen, comps = set(), []
        for c in adj:
            if c in seen:
                continue
            st, comp = [c], set()
            while st:
                x = st.pop()
                if x in comp:
                    continue
                comp.add(x)
                st.extend(adj[x] - comp)
            seen |= comp
            comps.append(comp)
        return comps

    def pinch_junctions(self):
        """Junctions where the kept cells around it do not form one contiguous fan (vertex pinch)."""
        jr = self.junction_ridges()
        out = []
        for j, rs in jr.items():
            # cells around j connected through ridges at j that have two cells
            cs = set()
            for ri in rs:
                cs.update(self.ridge_cells(ri))
            if len(cs) <= 1:
                continue
            adj = {c: set() for c in cs}
            for ri in rs:
                rc = self.ridge_cells(ri)
                if len(rc) == 2:
                    adj[rc[0]].add(rc[1])
                    adj[rc[1]].add(rc[0])
            start = next(iter(cs))
            st, comp = [start], set()
            while st:
                x = st.pop()
                if x in comp:
                    continue
                comp.add(x)
                st.extend(adj[x] - comp)
            if comp != cs:
                out.append(j)
        return out

    # ------------------------------------------------------------------ self test
    def self_test(self, tol=1e-9, balance=True):
        """Oracle self-test: cycles close, arcs consistent, (optionally) force balance at interior junctions."""
        for cid, cyc in self.cells.items():
            for k, (ri, fwd) in enumerate(cyc):
                r = self.ridges[ri]
                endj = r.b if fwd else r.a
                ri2, fwd2 = cyc[(k + 1) % len(cyc)]
                r2 = self.ridges[ri2]
                startj = r2.a if fwd2 else r2.b
                assert endj == startj, f"cell {cid} cycle broken"
                assert (r.left if fwd else r.right) == cid, f"cell {cid} not on the left of its CCW boundary"
        for i, r in enumerate(self.ridges):
            if r.c is not None:
                za, zb = self.J[r.a], self.J[r.b]
                ra, rb = abs(za - r.c), abs(zb - r.c)
                assert abs(ra - rb) <= 1e-7 * max(ra, 1e-300), f"ridge {i}: ends not equidistant from centre"
                zb2 = r.c + (za - r.c) * cmath.exp(1j * r.theta)
                assert abs(zb2 - zb) <= 1e-7 * max(ra, abs(zb - za)), f"ridge {i}: theta inconsistent"
        if balance:
            jr = self.junction_ridges()
            worst = 0.0
            for j, rs in jr.items():
                if len(rs) < 3 or any(len(self.ridge_cells(ri)) < 2 for ri in rs):
                    continue        # only junctions interior to the tissue keep all their ridges
                f = sum(self.ridges[ri].T * self.tangent(ri, j) for ri in rs)
                scale = max(self.ridges[ri].T for ri in rs)
                worst = max(worst, abs(f) / scale)
            assert worst <= tol, f"force balance residual {worst}"
        return True


# ============================================================================================ builders
def voronoi_tissue(sites, box=None, margin=0.0):
    """Tissue from the Voronoi diagram of `sites` (complex array). Cells = bounded regions whose vertices all lie
    inside `box` (xmin, xmax, ymin, ymax); T = distance between the two sites of a ridge."""
    from scipy.spatial import Voronoi
    pts = np.column_stack([np.real(sites), np.imag(sites)])
    with np.errstate(all="ignore"):
        vor = Voronoi(pts)
    V = vor.vertices[:, 0] + 1j * vor.vertices[:, 1]
    if box is None:
        box = (pts[:, 0].min(), pts[:, 0].max(), pts[:, 1].min(), pts[:, 1].max())
    xmin, xmax, ymin, ymax = box

    def inside(z):
        return xmin + margin <= z.real <= xmax - margin and ymin + margin <= z.imag <= ymax - margin

    keep_cells = []
    for si, reg_i in enumerate(vor.point_region):
        reg = vor.regions[reg_i]
        if len(reg) >= 3 and -1 not in reg and all(inside(V[v]) for v in reg):
            keep_cells.append(si)
    keep = set(keep_cells)
    ridges = []
    cell_ridges = {c: [] for c in keep}
    for (p, q), rv in zip(vor.ridge_points, vor.ridge_vertices):
        p, q = int(p), int(q)
        if p not in keep and q not in keep:
            continue
        if -1 in rv:
            continue
        a, b = int(rv[0]), int(rv[1])
        za, zb = V[a], V[b]
        if abs(za - zb) == 0:
            continue
        # which site is on the left of a->b ?
        mid = (za + zb) / 2
        sp = complex(*pts[p])
        cross = ((zb - za).conjugate() * (sp - mid)).imag
        left, right = (p, q) if cross > 0 else (q, p)
        T = abs(complex(*pts[p]) - complex(*pts[q]))
        idx = len(ridges)
        ridges.append(Ridge(a, b, None, 0.0, left if left in keep else None, right if right in keep else None, T))
        if left in keep:
            cell_ridges[left].append((idx, True))
        if right in keep:
            cell_ridges[right].append((idx, False))
    # order each cell's ridges into a CCW cycle
    cells = {}
    for c, lst in cell_ridges.items():
        start = {}
        for ri, fwd in lst:
            r = ridges[ri]
            s = r.a if fwd else r.b
            start[s] = (ri, fwd)
        cyc = []
        ri, fwd = lst[0]
        for _ in range(len(lst)):
            cyc.append((ri, fwd))
            r = ridges[ri]
            e = r.b if fwd else r.a
            if e not in start:
                cyc = None
                break
            ri, fwd = start[e]
        if cyc is None or len(cyc) != len(lst) or len(set(cyc)) != len(lst):
            raise ValueError("degenerate Voronoi cell")
        cells[c] = cyc
    jused = set()
    for r in ridges:
        jused.add(r.a)
        jused.add(r.b)
    J = {j: complex(V[j]) for j in sorted(jused)}
    sites_d = {c: complex(*pts[c]) for c in keep}
    t = Tissue(J, ridges, cells, sites_d, None, 1.0, "voronoi")
    return t


def moebius(t, pole):
    """Image of a straight tissue under w = 1/(z - pole); tensions unchanged, ridges become exact circular arcs."""
    J = {j: 1.0 / (z - pole) for j, z in t.J.items()}
    ridges = []
    for r in t.ridges:
        za, zb = t.J[r.a], t.J[r.b]
        d = (zb - za) / abs(zb - za)
        n = 1j * d                         # unit normal (left of a->b)
        h = ((pole - za) * n.conjugate()).real      # signed distance of the pole from the line, along n
        if abs(h) < 1e-12 * max(abs(zb - za), 1e-300):
            # line through the pole maps to a line
            ridges.append(replace(r, c=None, theta=0.0))
            continue
        # foot of the pole on the line: f = pole - h*n ; image of the line = circle through 0 and 1/(f-pole)
        # centre = 1/(2*(f-pole)) = 1/(2*(-h*n)) = -conj(n)... keep it explicit:
        c = 1.0 / (2.0 * (-h * n))
        wa, wb = J[r.a], J[r.b]
        delta = cmath.phase((wb - c) / (wa - c))
        alpha0 = cmath.phase((0 - c) / (wa - c))     # where the image of infinity sits
        if delta > 0:
            theta = delta if not (0 < alpha0 < delta) else delta - 2 * math.pi
        else:
            theta = delta if not (delta < alpha0 < 0) else delta + 2 * math.pi
        # 1/(z-p) is holomorphic: orientation (left/right, CCW cycles) is preserved
        ridges.append(replace(r, c=c, theta=theta))
    cells = {cid: list(cyc) for cid, cyc in t.cells.items()}
    out = Tissue(J, ridges, cells, dict(t.sites), pole, 1.0, "moebius", dict(t.meta, pole=[pole.real, pole.imag]))
    return out


def hex_lattice(nx, ny, a=1.0):
    """Regular hexagonal lattice (pointy-top: has exactly vertical edges), equal tensions, straight ridges."""
    return _lattice_from_polys(_hex_polys(nx, ny, a), "hex")


def _hex_polys(nx, ny, a):
    polys = []
    for j in range(ny):
        for i in range(nx):
            cx = math.sqrt(3) * a * (i + 0.5 * (j % 2))
            cy = 1.5 * a * j
            poly = []
            for k in range(6):
                ang = math.pi / 6 + k * math.pi / 3
                poly.append((round(cx + a * math.cos(ang), 12), round(cy + a * math.sin(ang), 12)))
            polys.append(poly)
    return polys


def square_lattice(nx, ny, a=1.0):
    polys = []
    for j in range(ny):
        for i in range(nx):
            polys.append([(i * a, j * a), ((i + 1) * a, j * a), ((i + 1) * a, (j + 1) * a), (i * a, (j + 1) * a)])
    return _lattice_from_polys(polys, "square")


def brick_lattice(nx, ny, a=1.0):
    """Brick wall: T-junctions (not an equilibrium)."""
    polys = []
    for j in range(ny):
        off = 0.5 * a * (j % 2)
        for i in range(nx):
            x0, x1, y0, y1 = off + i * a, off + (i + 1) * a, j * a * 0.6, (j + 1) * a * 0.6
            # insert the T-junction points of the rows above and below so that neighbouring cells share vertices
            bottom = [(x0, y0), (x0 + 0.5 * a, y0), (x1, y0)]
            top = [(x1, y1), (x0 + 0.5 * a, y1), (x0, y1)]
            polys.append(bottom + top)
    return _lattice_from_polys(polys, "brick")


def _lattice_from_polys(polys, kind):
    """Cell complex from CCW polygons sharing exactly equal corner coordinates. Corners that end up with only two
    ridges and are collinear stay as junction records of degree 2 (forsys then merges them into one interface)."""
    key = {}
    J = {}

    def jid(p):
        k = (round(p[0], 9), round(p[1], 9))
        if k not in key:
            key[k] = len(key)
            J[key[k]] = complex(p[0], p[1])
        return key[k]

    ridges = []
    rid = {}
    cells = {}
    for c, poly in enumerate(polys):
        ids = [jid(p) for p in poly]
        cyc = []
        for k in range(len(ids)):
            a, b = ids[k], ids[(k + 1) % len(ids)]
            if (b, a) in rid:
                ri = rid[(b, a)]
                ridges[ri].right = c
                cyc.append((ri, False))
            else:
                rid[(a, b)] = len(ridges)
                cyc.append((len(ridges), True))
                ridges.append(Ridge(a, b, None, 0.0, c, None, 1.0))
        cells[c] = cyc
    t = Tissue(J, ridges, cells, {}, None, 1.0, kind)
    return t


def merge_degree2(t):
    """Merge junctions of degree 2 into interior sample points is NOT done here: forsys treats them as plain
    interior vertices.  This helper just lists them (lattice borders)."""
    return [j for j, rs in t.junction_ridges().items() if len(rs) == 2]


# ============================================================================================ site generators
def make_sites(mode, n, rng, jitter=0.25):
    """Site sets inside roughly the unit-density box; returns complex array and the clipping box."""
    side = max(3, int(math.ceil(math.sqrt(n))) + 2)
    if mode == "uniform":
        m = side * side
        pts = rng.uniform(0, side, size=(m, 2))
    elif mode == "clustered":
        m = side * side
        k = max(2, m // 6)
        cen = rng.uniform(0.15 * side, 0.85 * side, size=(k, 2))
        which = rng.integers(0, k, size=m)
        pts = cen[which] + rng.normal(size=(m, 2)) * side * 0.12
        # fill with a sparse uniform background so that outer regions are bounded
        bg = rng.uniform(-0.5, side + 0.5, size=(m // 2, 2))
        pts = np.vstack([pts, bg])
    else:  # jittered grid
        g = np.array([(i + 0.5, j + 0.5) for j in range(side) for i in range(side)], float)
        # hexagonal offset so the unjittered limit is not 4-fold degenerate
        g[:, 0] += 0.5 * ((g[:, 1] - 0.5).astype(int) % 2)
        pts = g + rng.uniform(-jitter, jitter, size=g.shape)
    z = pts[:, 0] + 1j * pts[:, 1]
    lo = 0.0
    box = (lo + 0.6, side - 0.6 + (0.5 if mode == "grid" else 0.0), lo + 0.6, side - 0.6)
    return z, box


def trim_cells(t, n_target, rng):
    """Keep a connected blob of about n_target cells grown from a random seed cell (BFS over shared ridges)."""
    if len(t.cells) <= n_target:
        return t
    adj = {c: [] for c in t.cells}
    for r in t.ridges:
        if r.left is not None and r.right is not None:
            adj[r.left].append(r.right)
            adj[r.right].append(r.left)
    ids = sorted(t.cells)
    cen = t.centre()
    # seed = cell whose site is closest to the centre (keeps blob compact)
    def ccen(c):
        zs = [t.J[t.ridges[ri].a] for ri, _ in t.cells[c]]
        return sum(zs) / len(zs)
    start = min(ids, key=lambda c: abs(ccen(c) - cen))
    order = [start]
    seen = {start}
    k = 0
    while k < len(order) and len(order) < n_target:
        nb = sorted(set(adj[order[k]]) - seen, key=lambda c: abs(ccen(c) - cen))
        for c in nb:
            if len(order) >= n_target:
                break
            seen.add(c)
            order.append(c)
        k += 1
    return t.subtissue(order)


def rank_gap_scale_free(A):
    """(rank, sigma_rank/sigma_max, sigma_{rank+1}/sigma_max) with a 1e-9 relative threshold."""
    with np.errstate(all="ignore"):
        s = np.linalg.svd(A, compute_uv=False)
    if len(s) == 0 or s[0] == 0:
        return 0, 0.0, 0.0
    rel = s / s[0]
    rank = int((rel > 1e-9).sum())
    return rank, float(rel[rank - 1]), float(rel[rank]) if rank < len(rel) else 0.0
