"""Independent Surface Evolver dump serialiser ("laid out like the shipped ones") and model builder."""
import numpy as np

from .tissue import PRNG

HEADER = """// data/steps0.dmp: Dump of structure.

// datafilename: synthetic.fe
vertices_predicted      {nv}
edges_predicted         {ne}
facets_predicted         {nf}
facetedges_predicted    {nfe}
bodies_predicted         {nf}
quantities_predicted            0
method_instances_predicted      0
// Total energy: 4812.53483942057
SPACE_DIMENSION 2
STRING

LINEAR

SCALE: 0.005     FIXED

PARAMETER ii =  0

TOTAL_TIME 700

VIEW_MATRIX
 0.007926505441546   0.000000000000000  -1.033560824039506
 0.000000000000000   0.007926505441546  -1.023743847050151
 0.000000000000000   0.000000000000000   1.000000000000000
slice_coeff = {{ 1.00000, 0.00000, 0.00000}}

"""


class SEModel:
    """vertices {id: (x, y)}, edges {id: (v1, v2, density|None, style)}, faces [(id, [signed edge ids], lm, area)]
    style: 'density' | 'other' (attribute but no density) | 'bare'."""

    def __init__(self):
        self.vertices = {}
        self.edges = {}
        self.faces = []


def fmt(x):
    return repr(float(np.float64(x)))


def write_dump(model, wrap=10, newline="\r\n", trailer_alone=False):
    L = []
    nfe = sum(len(f[1]) for f in model.faces)
    L.extend(HEADER.format(nv=len(model.vertices), ne=len(model.edges), nf=len(model.faces), nfe=nfe).split("\n"))
    L.append("vertices        /*  coordinates  */    ")
    for vid, (x, y) in model.vertices.items():
        L.append(f"{vid:3d}   {float(x):.15g}  {float(y):.15g}")
    L.append("")
    L.append("edges  ")
    for eid, (v1, v2, dens, style) in model.edges.items():
        if style == "density":
            L.append(f"{eid:3d}       {v1}  {v2}      density {float(dens):.15g} ")
        elif style == "density_original":
            L.append(f"{eid:3d}       {v1}  {v2}      density {float(dens):.15g}  original {eid}")
        elif style == "other":
            L.append(f"{eid:3d}       {v1}  {v2}      original {eid}")
        else:
            L.append(f"{eid:3d}       {v1}  {v2}")
    L.append("")
    L.append("faces    /* edge loop */      ")
    for fid, loop, lm, area in model.faces:
        toks = [str(e) for e in loop]
        trailer = f"/*area {area}*/"
        lines = []
        first = True
        i = 0
        while i < len(toks):
            chunk = toks[i:i + wrap]
            i += wrap
            prefix = f"{fid:3d}   " if first else "               "
            first = False
            last = i >= len(toks)
            if last and not trailer_alone:
                lines.append(prefix + " ".join(chunk) + " " + trailer)
            else:
                lines.append(prefix + " ".join(chunk) + " \\")
        if trailer_alone:
            lines.append("               " + trailer)
        L.extend(lines)
    L.append("")
    L.append("bodies  /* facets */")
    for fid, loop, lm, area in model.faces:
        L.append(f"{fid:3d}       {fid}  volume 500  /*actual: 500.000000000001*/ lagrange_multiplier {float(lm):.15g}  centerofmass ")
    L.append("")
    L.append("read")
    L.append('ff := "data/steps0.dmp"')
    L.append("")
    L.append("show_all_edges off")
    return newline.join(L) + newline


def model_from_tissue(t, nint, seed, coord_scale=1.0, gaps=True, styles=("density", "density_original", "other", "bare"),
                      orphans=0, per_edge_density=False, shuffle_records=False):
    """Build an SEModel from a Tissue: each ridge is a chain of mesh edges; ids arbitrary positive with gaps;
    faces reference edges with signs; densities are per ridge (T), pressures drawn."""
    rng = PRNG(seed)
    m = SEModel()
    toks = []
    for j in sorted(t.J):
        toks.append(("J", j))
    for ri in range(len(t.ridges)):
        for k in range(nint[ri]):
            toks.append(("I", ri, k))
    n = len(toks)

    def ids(count):
        if not gaps:
            return list(range(1, count + 1))
        steps = rng.integers(1, 4, size=count)
        base = int(rng.integers(1, 20))
        arr = (base + np.cumsum(steps)).tolist()
        return [int(a) for a in arr]

    vids = ids(n)
    perm = rng.permutation(n) if gaps else np.arange(n)
    vid_of = {}
    coords = {}
    for j, z in t.J.items():
        coords[("J", j)] = z
    for ri in range(len(t.ridges)):
        for k, z in enumerate(t.points(ri, nint[ri])):
            coords[("I", ri, k)] = z
    order = [toks[i] for i in perm]
    for tok, vid in zip(order, sorted(vids)):
        vid_of[tok] = vid
    for tok in order:
        z = coords[tok] * coord_scale
        m.vertices[vid_of[tok]] = (z.real, z.imag)
    m.vertices = dict(sorted(m.vertices.items()))
    # edges: chain per ridge, random stored direction
    chains = {}
    pairs = []
    for ri, r in enumerate(t.ridges):
        chain = [("J", r.a)] + [("I", ri, k) for k in range(nint[ri])] + [("J", r.b)]
        chains[ri] = chain
        for k in range(len(chain) - 1):
            pairs.append((ri, k))
    eids = sorted(ids(len(pairs)))
    e_of = {}
    style_of_ridge = {ri: styles[int(rng.integers(0, len(styles)))] for ri in range(len(t.ridges))}
    for (ri, k), eid in zip(pairs, eids):
        a, b = chains[ri][k], chains[ri][k + 1]
        flip = bool(rng.integers(0, 2))
        v1, v2 = (vid_of[b], vid_of[a]) if flip else (vid_of[a], vid_of[b])
        stl = style_of_ridge[ri]
        dens = round(float(t.ridges[ri].T), 6) if stl.startswith("density") else None
        if dens is not None and per_edge_density:
            # every mesh edge its own density: zero, values that round to zero at four decimals, ties, ordinary ones
            u = int(rng.integers(0, 6))
            dens = [dens, 0.0, 4e-05, round(float(rng.uniform(0.1, 3.0)), 6), 0.00005, round(dens * 2, 6)][u]
        m.edges[eid] = (v1, v2, dens, stl)
        e_of[(ri, k)] = (eid, flip)
    # faces
    fids = sorted(ids(len(t.cells)))
    m.face_of_cell = {}
    for cid, fid in zip(sorted(t.cells), fids):
        loop = []
        for ri, fwd in t.cells[cid]:
            ks = range(len(chains[ri]) - 1)
            for k in (ks if fwd else reversed(ks)):
                eid, flip = e_of[(ri, k)]
                # walking a->b uses +eid if stored a->b
                sign = 1 if (fwd != flip) else -1
                loop.append(sign * eid)
        # start the loop anywhere
        s = int(rng.integers(0, len(loop)))
        loop = loop[s:] + loop[:s]
        lm = float(rng.uniform(-0.1, 0.1))
        m.faces.append((fid, loop, lm, -500))
        m.face_of_cell[cid] = fid
    # orphans: vertices / edges attached to no face
    vmax = max(m.vertices) if m.vertices else 0
    emax = max(m.edges) if m.edges else 0
    m.orphan_vertices, m.orphan_edges = [], []
    tissue_vids = sorted(vid_of.values())
    nid = [vmax + 2, emax + 2]

    def new_vertex():
        vid = nid[0]
        nid[0] += int(rng.integers(1, 3))
        m.vertices[vid] = (float(rng.uniform(-5, 5)), float(rng.uniform(-5, 5)))
        m.orphan_vertices.append(vid)
        return vid

    def new_edge(a, b):
        eid = nid[1]
        nid[1] += int(rng.integers(1, 3))
        m.edges[eid] = (a, b, round(float(rng.uniform(0.2, 2.0)), 3), "density") if rng.uniform() < 0.5 else (b, a, None, "bare")
        m.orphan_edges.append(eid)

    def tv():
        return tissue_vids[int(rng.integers(0, len(tissue_vids)))]

    kind0 = int(rng.integers(0, 5))
    for o in range(orphans):
        kind = (kind0 + o) % 5           # consecutive kinds: several unattached structures are of different kinds
        a = new_vertex()
        if kind == 0:          # free edge between two unattached vertices
            new_edge(a, new_vertex())
        elif kind == 1:        # spur: unattached vertex joined to the tissue
            new_edge(a, tv())
        elif kind == 2:        # 'V': unattached vertex joined to two tissue vertices
            new_edge(tv(), a)
            new_edge(a, tv())
        elif kind == 3:        # chain tissue - a - b, plus a star of three edges at a
            b2 = new_vertex()
            new_edge(tv(), a)
            new_edge(a, b2)
            new_edge(a, tv())
        else:                  # isolated vertex
            pass
    if shuffle_records:
        # records of every section in arbitrary (not ascending) order; bodies follow the face order
        r2 = PRNG(seed ^ 0x51ED)
        kv = list(m.vertices.items())
        m.vertices = dict(kv[i] for i in r2.permutation(len(kv)))
        ke = list(m.edges.items())
        m.edges = dict(ke[i] for i in r2.permutation(len(ke)))
        m.faces = [m.faces[i] for i in r2.permutation(len(m.faces))]
    m.vid_of = vid_of
    m.e_of = e_of
    m.chains = chains
    return m
