"""Mesh consistency invariant (property C09), recomputed from scratch by object identity."""
from collections import Counter


def mesh_problems(vertices, edges, cells, limit=5):
    """Return a list of human-readable inconsistencies (empty = consistent)."""
    probs = []

    def add(msg):
        if len(probs) < limit:
            probs.append(msg)

    # stored under own id
    for vid, v in vertices.items():
        if v.id != vid:
            add(f"vertex stored under {vid} has id {v.id}")
    for eid, e in edges.items():
        if e.id != eid:
            add(f"edge stored under {eid} has id {e.id}")
    for cid, c in cells.items():
        if c.id != cid:
            add(f"cell stored under {cid} has id {c.id}")

    # referenced objects exist and are the same objects
    for eid, e in edges.items():
        for v in (e.v1, e.v2):
            if vertices.get(v.id) is not v:
                add(f"edge {eid} references vertex {v.id} which is not the stored object")
        if e.v1 is e.v2 or e.v1.id == e.v2.id:
            add(f"edge {eid} joins a vertex to itself")
    for cid, c in cells.items():
        ids = [v.id for v in c.vertices]
        for v in c.vertices:
            if vertices.get(v.id) is not v:
                add(f"cell {cid} references vertex {v.id} which is not the stored object")
        if len(set(ids)) != len(ids):
            add(f"cell {cid} repeats a vertex: {[k for k, n in Counter(ids).items() if n > 1][:3]}")

    # back references recomputed from scratch
    true_edges = {vid: [] for vid in vertices}
    for eid, e in edges.items():
        for v in (e.v1, e.v2):
            if v.id in true_edges:
                true_edges[v.id].append(eid)
    true_cells = {vid: [] for vid in vertices}
    for cid, c in cells.items():
        for vid in {v.id for v in c.vertices}:
            if vid in true_cells:
                true_cells[vid].append(cid)
    for vid, v in vertices.items():
        if Counter(v.ownEdges) != Counter(true_edges[vid]):
            add(f"vertex {vid}: ownEdges {sorted(v.ownEdges)[:8]} != edges ending at it {sorted(true_edges[vid])[:8]}")
        if Counter(v.ownCells) != Counter(true_cells[vid]):
            add(f"vertex {vid}: ownCells {sorted(v.ownCells)[:8]} != cells containing it {sorted(true_cells[vid])[:8]}")
        for eid in v.ownEdges:
            if eid not in edges:
                add(f"vertex {vid} lists missing edge {eid}")
        for cid in v.ownCells:
            if cid not in cells:
                add(f"vertex {vid} lists missing cell {cid}")

    # consecutive cycle vertices joined by a mesh edge
    pairs = set()
    for e in edges.values():
        pairs.add(frozenset((e.v1.id, e.v2.id)))
    for cid, c in cells.items():
        ids = [v.id for v in c.vertices]
        if len(ids) < 2:
            add(f"cell {cid} has {len(ids)} vertices")
            continue
        for k in range(len(ids)):
            p = frozenset((ids[k], ids[(k + 1) % len(ids)]))
            if len(p) == 2 and p not in pairs:
                add(f"cell {cid}: consecutive vertices {ids[k]},{ids[(k + 1) % len(ids)]} not joined by a mesh edge")
                break
    return probs
